//! libc-level seams. This binary defines `getrandom`, `clock_gettime` and
//! `getpid` itself, so std (and anything else linked into the process) gets
//! the simulator's values instead of the kernel's: std's per-thread SipHash
//! keys (`RandomState`), `SystemTime::now()`, `Instant::now()` and
//! `std::process::id()` all become functions of the plan.
//!
//! While `ACTIVE` is false (driver mode) every seam passes through to the
//! real system call.

use std::sync::atomic::{AtomicBool, AtomicI64, AtomicU64, Ordering};

pub static ACTIVE: AtomicBool = AtomicBool::new(false);
static RNG_STATE: AtomicU64 = AtomicU64::new(0);
pub static GETRANDOM_CALLS: AtomicU64 = AtomicU64::new(0);
pub static CLOCK_CALLS: AtomicU64 = AtomicU64::new(0);
pub static GETPID_CALLS: AtomicU64 = AtomicU64::new(0);
/// Simulated wall clock, seconds since the epoch.
pub static CLOCK_S: AtomicI64 = AtomicI64::new(0);
/// Every clock read advances simulated time by this many nanoseconds.
static CLOCK_TICK_NS: AtomicU64 = AtomicU64::new(0);
static SIM_PID: AtomicI64 = AtomicI64::new(4242);
/// Simulated number of CPUs the process may run on (0 = pass through).
static SIM_CPUS: AtomicU64 = AtomicU64::new(0);
pub static AFFINITY_CALLS: AtomicU64 = AtomicU64::new(0);

pub fn set_cpus(n: u32) {
    SIM_CPUS.store(n as u64, Ordering::SeqCst);
}

pub fn activate(hash_seed: u64, clock_s: i64, pid: i64) {
    RNG_STATE.store(hash_seed, Ordering::SeqCst);
    CLOCK_S.store(clock_s, Ordering::SeqCst);
    SIM_PID.store(pid, Ordering::SeqCst);
    ACTIVE.store(true, Ordering::SeqCst);
}

pub fn set_clock(clock_s: i64) {
    CLOCK_S.store(clock_s, Ordering::SeqCst);
}

fn next_byte_block() -> u64 {
    // splitmix64 over an atomic: only one simulated thread runs at a time, so
    // the sequence handed out is a pure function of the plan.
    let mut s = RNG_STATE.load(Ordering::SeqCst);
    let v = simcore::splitmix64(&mut s);
    RNG_STATE.store(s, Ordering::SeqCst);
    v
}

/// # Safety
/// libc ABI.
#[no_mangle]
pub unsafe extern "C" fn getrandom(
    buf: *mut libc::c_void,
    buflen: libc::size_t,
    flags: libc::c_uint,
) -> libc::ssize_t {
    if !ACTIVE.load(Ordering::SeqCst) {
        return libc::syscall(libc::SYS_getrandom, buf, buflen, flags) as libc::ssize_t;
    }
    GETRANDOM_CALLS.fetch_add(1, Ordering::SeqCst);
    let out = buf as *mut u8;
    let mut i = 0usize;
    while i < buflen {
        let block = next_byte_block().to_le_bytes();
        for b in block {
            if i >= buflen {
                break;
            }
            *out.add(i) = b;
            i += 1;
        }
    }
    buflen as libc::ssize_t
}

/// # Safety
/// libc ABI.
#[no_mangle]
pub unsafe extern "C" fn clock_gettime(
    clk: libc::clockid_t,
    ts: *mut libc::timespec,
) -> libc::c_int {
    if !ACTIVE.load(Ordering::SeqCst) {
        return libc::syscall(libc::SYS_clock_gettime, clk, ts) as libc::c_int;
    }
    CLOCK_CALLS.fetch_add(1, Ordering::SeqCst);
    let tick = CLOCK_TICK_NS.fetch_add(1000, Ordering::SeqCst);
    if !ts.is_null() {
        (*ts).tv_sec = CLOCK_S.load(Ordering::SeqCst) as libc::time_t;
        (*ts).tv_nsec = (tick % 1_000_000_000) as _;
    }
    0
}

/// # Safety
/// libc ABI.
#[no_mangle]
pub unsafe extern "C" fn getpid() -> libc::pid_t {
    if !ACTIVE.load(Ordering::SeqCst) {
        return libc::syscall(libc::SYS_getpid) as libc::pid_t;
    }
    GETPID_CALLS.fetch_add(1, Ordering::SeqCst);
    SIM_PID.load(Ordering::SeqCst) as libc::pid_t
}

/// `std::thread::available_parallelism()` asks the scheduler which CPUs the process may use.
/// # Safety
/// libc ABI.
#[no_mangle]
pub unsafe extern "C" fn sched_getaffinity(pid: libc::pid_t, cpusetsize: libc::size_t, mask: *mut libc::cpu_set_t) -> libc::c_int {
    let n = SIM_CPUS.load(Ordering::SeqCst) as usize;
    if !ACTIVE.load(Ordering::SeqCst) || n == 0 || mask.is_null() {
        let r = libc::syscall(libc::SYS_sched_getaffinity, pid, cpusetsize, mask);
        if r < 0 {
            return -1;
        }
        // the raw call returns the number of bytes written; the wrapper zeroes the rest
        let bytes = mask as *mut u8;
        let mut i = r as usize;
        while i < cpusetsize {
            *bytes.add(i) = 0;
            i += 1;
        }
        return 0;
    }
    AFFINITY_CALLS.fetch_add(1, Ordering::SeqCst);
    let bytes = mask as *mut u8;
    for i in 0..cpusetsize {
        *bytes.add(i) = 0;
    }
    for cpu in 0..n.min(cpusetsize * 8) {
        *bytes.add(cpu / 8) |= 1 << (cpu % 8);
    }
    0
}
