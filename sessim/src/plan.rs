//! The explicit plan of one simulated compiler-session history. A plan is
//! everything: executing it is a pure function of the plan and the code.

use serde_json::{json, Value};

#[derive(Clone, Debug, PartialEq)]
pub struct Program {
    pub variant: String,
    pub attr: String,
    pub item: String,
    /// where it came from (harvest path or "gen:<kind>"); not used in execution
    pub origin: String,
    /// identifiers that name the thing (fn / mod / trait ident, trait name in
    /// attr, mock_api): used for the name-collision bias and statistics
    pub names: Vec<String>,
}

impl Program {
    pub fn key(&self) -> u64 {
        let mut h = simcore::fnv1a64(self.variant.as_bytes());
        h = simcore::fnv_extend(h, b"\x00");
        h = simcore::fnv_extend(h, self.attr.as_bytes());
        h = simcore::fnv_extend(h, b"\x00");
        simcore::fnv_extend(h, self.item.as_bytes())
    }
    pub fn to_json(&self) -> Value {
        json!({"variant": self.variant, "attr": self.attr, "item": self.item,
               "origin": self.origin, "names": self.names})
    }
    pub fn from_json(v: &Value) -> Program {
        Program {
            variant: v["variant"].as_str().unwrap_or("entrait").to_string(),
            attr: v["attr"].as_str().unwrap_or("").to_string(),
            item: v["item"].as_str().unwrap_or("").to_string(),
            origin: v["origin"].as_str().unwrap_or("").to_string(),
            names: v["names"]
                .as_array()
                .map(|a| {
                    a.iter()
                        .filter_map(|x| x.as_str().map(|s| s.to_string()))
                        .collect()
                })
                .unwrap_or_default(),
        }
    }
}

#[derive(Clone, Debug, PartialEq)]
pub enum Decision {
    /// the running thread keeps running
    Cont,
    /// park the running thread here and run the n-th other runnable thread
    Switch(u32),
    /// unwind out of the expansion at this point
    Panic,
    EnvSet(String, String),
    EnvUnset(String),
    /// chdir into this sub-directory of the scratch dir ("" = its root)
    Cwd(String),
    /// set the simulated wall clock (seconds since the epoch)
    Clock(i64),
}

impl Decision {
    pub fn kind(&self) -> &'static str {
        match self {
            Decision::Cont => "cont",
            Decision::Switch(_) => "worker_switch",
            Decision::Panic => "panic_injection",
            Decision::EnvSet(..) => "env_set",
            Decision::EnvUnset(_) => "env_unset",
            Decision::Cwd(_) => "cwd_change",
            Decision::Clock(_) => "clock_jump",
        }
    }
    pub fn to_json(&self) -> Value {
        match self {
            Decision::Cont => json!({"k": "cont"}),
            Decision::Switch(n) => json!({"k": "switch", "n": n}),
            Decision::Panic => json!({"k": "panic"}),
            Decision::EnvSet(a, b) => json!({"k": "env_set", "name": a, "value": b}),
            Decision::EnvUnset(a) => json!({"k": "env_unset", "name": a}),
            Decision::Cwd(d) => json!({"k": "cwd", "dir": d}),
            Decision::Clock(t) => json!({"k": "clock", "to": t}),
        }
    }
    pub fn from_json(v: &Value) -> Decision {
        match v["k"].as_str().unwrap_or("cont") {
            "switch" => Decision::Switch(v["n"].as_u64().unwrap_or(0) as u32),
            "panic" => Decision::Panic,
            "env_set" => Decision::EnvSet(
                v["name"].as_str().unwrap_or("X").to_string(),
                v["value"].as_str().unwrap_or("").to_string(),
            ),
            "env_unset" => Decision::EnvUnset(v["name"].as_str().unwrap_or("X").to_string()),
            "cwd" => Decision::Cwd(v["dir"].as_str().unwrap_or("").to_string()),
            "clock" => Decision::Clock(v["to"].as_i64().unwrap_or(0)),
            _ => Decision::Cont,
        }
    }
}

#[derive(Clone, Debug, PartialEq)]
pub struct Job {
    /// index into Plan::programs
    pub prog: usize,
    /// simulated worker thread this invocation runs on (threads are spawned
    /// at first use, so a fresh id means fresh thread-locals and hash keys)
    pub thread: u32,
}

#[derive(Clone, Debug, PartialEq)]
pub struct Epoch {
    /// seed of the byte stream served by the getrandom seam
    pub hash_seed: u64,
    /// initial simulated wall clock
    pub clock_s: i64,
    pub pid: i64,
    /// initial environment (the real environment is cleared first)
    pub env: Vec<(String, String)>,
    /// extra command-line arguments of the epoch process (what `std::env::args()` shows the
    /// macro: a compiler session is started with `--test`, `--edition=..`, `--cfg ..`, ...)
    pub argv: Vec<String>,
    /// CPUs the epoch process "may run on" (what `available_parallelism()` reports); 0 = the real number
    pub cpus: u32,
    /// whether the epoch process's stderr is a terminal (a pty) rather than /dev/null
    pub tty: bool,
    pub jobs: Vec<Job>,
    /// consumed one per scheduling event (point hit or job end); when the
    /// list is exhausted the answer is `Cont`
    pub decisions: Vec<Decision>,
}

#[derive(Clone, Debug, PartialEq)]
pub struct Plan {
    pub programs: Vec<Program>,
    /// each epoch is a fresh OS process; the scratch directory survives
    pub epochs: Vec<Epoch>,
}

impl Epoch {
    pub fn to_json(&self) -> Value {
        json!({
            "hash_seed": simcore::hex64(self.hash_seed),
            "clock_s": self.clock_s,
            "pid": self.pid,
            "env": self.env.iter().map(|(k, v)| json!([k, v])).collect::<Vec<_>>(),
            "argv": self.argv,
            "cpus": self.cpus,
            "tty": self.tty,
            "jobs": self.jobs.iter().map(|j| json!({"prog": j.prog, "thread": j.thread})).collect::<Vec<_>>(),
            "decisions": self.decisions.iter().map(|d| d.to_json()).collect::<Vec<_>>(),
        })
    }
    pub fn from_json(v: &Value) -> Epoch {
        Epoch {
            hash_seed: u64::from_str_radix(v["hash_seed"].as_str().unwrap_or("0"), 16)
                .unwrap_or(0),
            clock_s: v["clock_s"].as_i64().unwrap_or(0),
            pid: v["pid"].as_i64().unwrap_or(1),
            env: v["env"]
                .as_array()
                .map(|a| {
                    a.iter()
                        .map(|kv| {
                            (
                                kv[0].as_str().unwrap_or("").to_string(),
                                kv[1].as_str().unwrap_or("").to_string(),
                            )
                        })
                        .collect()
                })
                .unwrap_or_default(),
            cpus: v["cpus"].as_u64().unwrap_or(0) as u32,
            tty: v["tty"].as_bool().unwrap_or(false),
            argv: v["argv"].as_array().map(|a| a.iter().filter_map(|x| x.as_str().map(|s| s.to_string())).collect()).unwrap_or_default(),
            jobs: v["jobs"]
                .as_array()
                .map(|a| {
                    a.iter()
                        .map(|j| Job {
                            prog: j["prog"].as_u64().unwrap_or(0) as usize,
                            thread: j["thread"].as_u64().unwrap_or(0) as u32,
                        })
                        .collect()
                })
                .unwrap_or_default(),
            decisions: v["decisions"]
                .as_array()
                .map(|a| a.iter().map(Decision::from_json).collect())
                .unwrap_or_default(),
        }
    }
}

impl Plan {
    pub fn to_json(&self) -> Value {
        json!({
            "programs": self.programs.iter().map(|p| p.to_json()).collect::<Vec<_>>(),
            "epochs": self.epochs.iter().map(|e| e.to_json()).collect::<Vec<_>>(),
        })
    }
    pub fn from_json(v: &Value) -> Plan {
        Plan {
            programs: v["programs"]
                .as_array()
                .map(|a| a.iter().map(Program::from_json).collect())
                .unwrap_or_default(),
            epochs: v["epochs"]
                .as_array()
                .map(|a| a.iter().map(Epoch::from_json).collect())
                .unwrap_or_default(),
        }
    }

    /// The pristine solo session used as reference model: one process, empty
    /// environment, one thread, one invocation.
    pub fn solo(program: &Program, hash_seed: u64, clock_s: i64) -> Plan {
        Plan {
            programs: vec![program.clone()],
            epochs: vec![Epoch {
                hash_seed,
                clock_s,
                pid: 1000 + (hash_seed % 30000) as i64,
                env: vec![],
                argv: vec![],
                cpus: 1,
                tty: false,
                jobs: vec![Job { prog: 0, thread: 0 }],
                decisions: vec![],
            }],
        }
    }

    /// Drop programs no job refers to and renumber.
    pub fn compact(&mut self) {
        let mut used = vec![false; self.programs.len()];
        for e in &self.epochs {
            for j in &e.jobs {
                used[j.prog] = true;
            }
        }
        let mut map = vec![usize::MAX; self.programs.len()];
        let mut progs = vec![];
        for (i, p) in self.programs.iter().enumerate() {
            if used[i] {
                map[i] = progs.len();
                progs.push(p.clone());
            }
        }
        for e in &mut self.epochs {
            for j in &mut e.jobs {
                j.prog = map[j.prog];
            }
        }
        self.programs = progs;
    }
}
