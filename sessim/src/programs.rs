//! Workload programs: (1) harvested from /repo's working tree at run time,
//! (2) generated from a small grammar over all four input modes. A program is
//! `(variant, attr text, item text)`; it only needs to lex.

use crate::plan::Program;
use quote::ToTokens;
use simcore::Rng;
use std::path::{Path, PathBuf};
use syn::visit::Visit;

pub const VARIANTS: [&str; 4] = [
    "entrait",
    "entrait_export",
    "entrait_unimock",
    "entrait_export_unimock",
];

fn is_entrait_attr(attr: &syn::Attribute) -> Option<&'static str> {
    let last = attr.path().segments.last()?.ident.to_string();
    VARIANTS.iter().copied().find(|v| *v == last)
}

struct Harvester {
    origin: String,
    out: Vec<Program>,
}

impl Harvester {
    fn take(&mut self, attrs: &[syn::Attribute], rebuild: &dyn Fn(Vec<syn::Attribute>) -> String, ident: String) {
        for (i, attr) in attrs.iter().enumerate() {
            if let Some(variant) = is_entrait_attr(attr) {
                let attr_tokens = match &attr.meta {
                    syn::Meta::Path(_) => String::new(),
                    syn::Meta::List(l) => l.tokens.to_string(),
                    syn::Meta::NameValue(_) => continue,
                };
                // attributes above entrait were consumed before it ran; those
                // below stay on the item
                let item = rebuild(attrs[i + 1..].to_vec());
                let mut names = vec![ident.clone()];
                if let Ok(ts) = attr_tokens.parse::<proc_macro2::TokenStream>() {
                    for tt in ts {
                        if let proc_macro2::TokenTree::Ident(id) = tt {
                            let s = id.to_string();
                            if s.chars().next().map(|c| c.is_uppercase()).unwrap_or(false) {
                                names.push(s);
                            }
                        }
                    }
                }
                names.sort();
                names.dedup();
                self.out.push(Program {
                    variant: variant.to_string(),
                    attr: attr_tokens,
                    item,
                    origin: self.origin.clone(),
                    names,
                });
                break;
            }
        }
    }
}

impl<'ast> Visit<'ast> for Harvester {
    fn visit_item_fn(&mut self, i: &'ast syn::ItemFn) {
        let it = i.clone();
        self.take(
            &i.attrs,
            &move |attrs| {
                let mut it = it.clone();
                it.attrs = attrs;
                it.to_token_stream().to_string()
            },
            i.sig.ident.to_string(),
        );
        syn::visit::visit_item_fn(self, i);
    }
    fn visit_item_mod(&mut self, i: &'ast syn::ItemMod) {
        let it = i.clone();
        self.take(
            &i.attrs,
            &move |attrs| {
                let mut it = it.clone();
                it.attrs = attrs;
                it.to_token_stream().to_string()
            },
            i.ident.to_string(),
        );
        syn::visit::visit_item_mod(self, i);
    }
    fn visit_item_trait(&mut self, i: &'ast syn::ItemTrait) {
        let it = i.clone();
        self.take(
            &i.attrs,
            &move |attrs| {
                let mut it = it.clone();
                it.attrs = attrs;
                it.to_token_stream().to_string()
            },
            i.ident.to_string(),
        );
        syn::visit::visit_item_trait(self, i);
    }
    fn visit_item_impl(&mut self, i: &'ast syn::ItemImpl) {
        let it = i.clone();
        self.take(
            &i.attrs,
            &move |attrs| {
                let mut it = it.clone();
                it.attrs = attrs;
                it.to_token_stream().to_string()
            },
            i.self_ty.to_token_stream().to_string(),
        );
        syn::visit::visit_item_impl(self, i);
    }
}

fn rs_files(dir: &Path, out: &mut Vec<PathBuf>) {
    let Ok(rd) = std::fs::read_dir(dir) else { return };
    let mut entries: Vec<PathBuf> = rd.filter_map(|e| e.ok().map(|e| e.path())).collect();
    entries.sort();
    for p in entries {
        if p.is_dir() {
            if p.file_name().map(|n| n == "target").unwrap_or(false) {
                continue;
            }
            rs_files(&p, out);
        } else if p.extension().map(|e| e == "rs").unwrap_or(false) {
            out.push(p);
        }
    }
}

fn doc_blocks(text: &str, is_markdown: bool) -> Vec<String> {
    let mut blocks = vec![];
    let mut cur: Option<Vec<String>> = None;
    for raw in text.lines() {
        let line = if is_markdown {
            Some(raw.to_string())
        } else {
            let t = raw.trim_start();
            t.strip_prefix("//!")
                .or_else(|| t.strip_prefix("///"))
                .map(|l| l.strip_prefix(' ').unwrap_or(l).to_string())
        };
        let Some(line) = line else {
            cur = None;
            continue;
        };
        if line.trim_start().starts_with("```") {
            match cur.take() {
                Some(lines) => blocks.push(lines.join("\n")),
                None => {
                    let info = line.trim_start().trim_start_matches('`').trim();
                    if info.is_empty() || info.starts_with("rust") || info == "no_compile" || info == "ignore" {
                        cur = Some(vec![]);
                    }
                }
            }
        } else if let Some(lines) = cur.as_mut() {
            let l = line
                .strip_prefix("# ")
                .map(|s| s.to_string())
                .unwrap_or_else(|| if line == "#" { String::new() } else { line.clone() });
            lines.push(l);
        }
    }
    blocks
}

/// Every entrait invocation found in /repo's tests, examples and docs.
pub fn harvest(repo: &Path) -> Vec<Program> {
    let mut out: Vec<Program> = vec![];
    let mut files = vec![];
    rs_files(&repo.join("tests"), &mut files);
    rs_files(&repo.join("examples"), &mut files);
    rs_files(&repo.join("src"), &mut files);
    for f in &files {
        let Ok(text) = std::fs::read_to_string(f) else { continue };
        let rel = f.strip_prefix(repo).unwrap_or(f).display().to_string();
        if let Ok(file) = syn::parse_file(&text) {
            let mut h = Harvester {
                origin: rel.clone(),
                out: vec![],
            };
            h.visit_file(&file);
            out.extend(h.out);
        }
        for (n, block) in doc_blocks(&text, false).into_iter().enumerate() {
            harvest_block(&block, &format!("{rel}#doc{n}"), &mut out);
        }
    }
    for md in ["README.md"] {
        if let Ok(text) = std::fs::read_to_string(repo.join(md)) {
            for (n, block) in doc_blocks(&text, true).into_iter().enumerate() {
                harvest_block(&block, &format!("{md}#doc{n}"), &mut out);
            }
        }
    }
    // dedupe by (variant, attr, item)
    let mut seen = std::collections::BTreeSet::new();
    out.retain(|p| seen.insert(p.key()));
    out
}

fn harvest_block(block: &str, origin: &str, out: &mut Vec<Program>) {
    let parsed = syn::parse_file(block)
        .or_else(|_| syn::parse_file(&format!("fn __doc() {{ {block} }}")));
    if let Ok(file) = parsed {
        let mut h = Harvester {
            origin: origin.to_string(),
            out: vec![],
        };
        h.visit_file(&file);
        out.extend(h.out);
    }
}

// ---------------------------------------------------------------------------
// generated programs
// ---------------------------------------------------------------------------

const FN_NAMES: [&str; 6] = ["foo", "bar", "baz", "arg1", "f", "get"];
const TRAIT_NAMES: [&str; 6] = ["Foo", "Bar", "Baz", "Send", "Repo", "Get"];
const DEP_TRAITS: [&str; 4] = ["Bar", "Baz", "Clock", "Repo"];
const TYPES: [&str; 20] = [
    "i32", "u8", "String", "(i32, i32)", "&str", "Foo", "Option<i32>", "[u8; 2]", "&'a str", "&mut Vec<u8>",
    "impl Fn(i32) -> i32", "impl Into<String> + Send", "&dyn std::fmt::Debug", "Box<dyn Fn() + Send>", "T", "&[T]",
    "std::sync::Arc<Foo>", "&&i32", "fn(i32) -> i32", "[u8; N]",
];
const RETS: [&str; 12] = [
    "", "-> i32", "-> String", "-> &str", "-> Result<i32, ()>", "-> impl Clone", "-> ()", "-> &'a str", "-> Box<dyn std::fmt::Debug + 'a>",
    "-> (i32, String)", "-> impl std::future::Future<Output = i32> + Send", "-> Option<&'a Foo>",
];

fn gen_pattern(rng: &mut Rng, idx: usize, fn_name: &str) -> String {
    match rng.below(21) {
        14 => format!("ref q{idx}"),
        15 => format!("mut m{idx}"),
        16 => format!("w{idx} @ _"),
        17 => format!("((c{idx}, d{idx}), e{idx})"),
        18 => format!("&(f{idx}, g{idx})"),
        19 => format!("[h{idx}, i{idx}]"),
        20 => format!("S {{ a, .. }}"),
        0 => format!("p{idx}"),
        1 => format!("mut p{idx}"),
        2 => format!("r#type"),
        3 => "_".to_string(),
        4 => format!("(a{idx}, b{idx})"),
        5 => format!("N(n{idx})"),
        6 => format!("N(n{idx}, _)"),
        7 => format!("S {{ s{idx} }}"),
        8 => format!("&r{idx}"),
        9 => fn_name.to_string(),
        10 => format!("arg{}", rng.below(4)),
        11 => format!("_arg{}", rng.below(4)),
        12 => "N(None)".to_string(),
        _ => format!("x{}", rng.below(3)),
    }
}

fn gen_params(rng: &mut Rng, fn_name: &str, max: u64) -> Vec<String> {
    let n = rng.below(max + 1) as usize;
    (0..n)
        .map(|i| {
            let pat = gen_pattern(rng, i, fn_name);
            let attr = if rng.chance(60) { "#[allow(unused)] " } else { "" };
            format!("{attr}{pat}: {}", rng.pick(&TYPES))
        })
        .collect()
}

fn gen_fn_text(rng: &mut Rng, name: &str, in_container: bool) -> String {
    let vis = if in_container {
        *rng.pick(&["pub", "pub", "pub(crate)", "", "pub(super)"])
    } else {
        *rng.pick(&["", "pub", "pub(crate)"])
    };
    let asyncness = if rng.chance(300) { "async " } else { "" };
    let quals = match rng.below(40) {
        0 => "unsafe ",
        1 => "const ",
        2 => "extern \"C\" ",
        3 => "unsafe extern \"C\" ",
        _ => "",
    };
    let mut generics = String::new();
    let mut where_clause = String::new();
    let dep = match rng.below(17) {
        9 => format!("deps: &(impl {} + {} + 'static)", rng.pick(&DEP_TRAITS), rng.pick(&DEP_TRAITS)),
        10 => {
            generics = "<'b, D, T, const N: usize>".to_string();
            where_clause = format!(" where D: {} + {}, D: {}, T: Into<String>, for<'x> &'x T: Send", rng.pick(&DEP_TRAITS), rng.pick(&DEP_TRAITS), rng.pick(&DEP_TRAITS));
            "deps: &'b D".to_string()
        }
        11 => format!("deps: &dyn {}", rng.pick(&DEP_TRAITS)),
        12 => format!("deps: &mut impl {}", rng.pick(&DEP_TRAITS)),
        13 => "deps: &crate::app::State".to_string(),
        14 => "deps: &(A, B)".to_string(),
        15 => format!("deps: std::sync::Arc<impl {}>", rng.pick(&DEP_TRAITS)),
        16 => {
            generics = format!("<D: {} + {}>", rng.pick(&DEP_TRAITS), rng.pick(&DEP_TRAITS));
            where_clause = format!(" where D: {} + Send", rng.pick(&DEP_TRAITS));
            "deps: &D".to_string()
        }
        0 => format!("deps: &impl {}", rng.pick(&DEP_TRAITS)),
        1 => format!("deps: &(impl {} + {})", rng.pick(&DEP_TRAITS), rng.pick(&DEP_TRAITS)),
        2 => {
            generics = format!("<D: {}>", rng.pick(&DEP_TRAITS));
            "deps: &D".to_string()
        }
        3 => {
            generics = "<D, T: Clone, const N: usize>".to_string();
            where_clause = format!(" where D: {} + Sync, T: Send", rng.pick(&DEP_TRAITS));
            "deps: &D".to_string()
        }
        4 => format!("deps: impl {}", rng.pick(&DEP_TRAITS)),
        5 => "deps: &App".to_string(),
        6 => "_: &impl std::any::Any".to_string(),
        7 => String::new(),
        _ => format!("{}: &'a impl {}", rng.pick(&["deps", "_deps", "d"]), rng.pick(&DEP_TRAITS)),
    };
    if dep.contains("'a") {
        generics = if generics.is_empty() {
            "<'a>".to_string()
        } else {
            generics.replacen('<', "<'a, ", 1)
        };
    }
    let mut params = gen_params(rng, name, 5);
    if !dep.is_empty() {
        params.insert(0, dep);
    }
    let ret = *rng.pick(&RETS);
    let body = *rng.pick(&["{ 42 }", "{ todo!() }", "{ let x = |a| a; unimplemented!() }", "{}"]);
    let attrs = match rng.below(18) {
        0 => "#[cfg(test)] ",
        1 => "/// doc\n",
        2 => "#[async_trait::async_trait] ",
        3 => "#[inline] #[must_use] ",
        4 => "#[doc = \"x\"] #[allow(clippy::all)] ",
        5 => "#[tracing::instrument(skip(deps))] ",
        6 => "#[cfg_attr(test, inline)] /** block doc */ ",
        7 => "#[cfg(all(unix, not(feature = \"x\")))] ",
        _ => "",
    };
    let vis_sp = if vis.is_empty() { String::new() } else { format!("{vis} ") };
    format!(
        "{attrs}{vis_sp}{quals}{asyncness}fn {name}{generics}({}) {ret}{where_clause} {body}",
        params.join(", ")
    )
}

fn gen_fn_attr(rng: &mut Rng) -> (String, Vec<String>) {
    let tr = *rng.pick(&TRAIT_NAMES);
    let vis = *rng.pick(&["", "", "pub ", "pub(crate) ", "pub(super) "]);
    let mut names = vec![tr.to_string()];
    let all = [
        "no_deps",
        "no_deps = false",
        "no_deps = true",
        "export",
        "export = false",
        "unimock",
        "unimock = false",
        "unimock = true",
        "mockall",
        "mockall = false",
        "mock_api = FooMock",
        "mock_api = BarMock",
        "?Send",
        "debug = false",
        "delegate_by = ref",
        "bogus",
        "?Sync",
        "export = 3",
    ];
    let mut opts: Vec<&str> = vec![];
    let n = match rng.below(10) {
        0..=3 => 0,
        4..=6 => 1,
        7..=8 => 2,
        _ => 4,
    };
    for _ in 0..n {
        // valid options are far more likely than invalid ones
        let k = if rng.chance(900) { rng.below(14) } else { 14 + rng.below(4) } as usize;
        opts.push(all[k]);
    }
    for o in &opts {
        if let Some(m) = o.strip_prefix("mock_api = ") {
            names.push(m.to_string());
        }
    }
    let mut s = format!("{vis}{tr}");
    for o in opts {
        s.push_str(", ");
        s.push_str(o);
    }
    if rng.chance(30) {
        s.push(',');
    }
    (s, names)
}

fn gen_unknown_item(rng: &mut Rng) -> String {
    match rng.below(15) {
        8 => "pub mod inner { pub fn nested(deps: &impl Bar) {} }".to_string(),
        9 => "extern \"C\" { pub fn c_decl(x: i32); }".to_string(),
        10 => "pub static COUNTER: std::sync::atomic::AtomicUsize = std::sync::atomic::AtomicUsize::new(0);".to_string(),
        11 => "pub(in crate::m) fn scoped(deps: &impl Baz, a: i32) -> i32 { a }".to_string(),
        12 => "pub trait Local { fn l(&self); }".to_string(),
        13 => "#[cfg(test)] mod tests { use super::*; #[test] fn t() {} }".to_string(),
        14 => "pub type Alias = Result<i32, ()>;".to_string(),
        0 => "struct S { a: i32 }".to_string(),
        1 => "const K: usize = 3;".to_string(),
        2 => "use super::*;".to_string(),
        3 => "impl S { pub fn hidden(&self) {} }".to_string(),
        4 => "pub struct Unit;".to_string(),
        5 => "fn private(deps: &impl Bar) {}".to_string(),
        6 => "pub fn decl(deps: &impl Bar);".to_string(),
        _ => "macro_rules! m { () => { pub fn in_macro() {} } }".to_string(),
    }
}

fn gen_trait_text(rng: &mut Rng, name: &str) -> String {
    let n = 1 + rng.below(4) as usize;
    let mut items = vec![];
    for i in 0..n {
        let mname = *rng.pick(&FN_NAMES);
        let asyncness = if rng.chance(300) { "async " } else { "" };
        let mut params = gen_params(rng, mname, 3);
        params.insert(0, (*rng.pick(&["&self", "&self", "&'a self", "self"])).to_string());
        let has_a = params[0].contains("'a");
        let ret = *rng.pick(&RETS);
        let attrs = if rng.chance(100) { "#[cfg(feature = \"x\")] " } else if rng.chance(100) { "/// m\n" } else { "" };
        let default_body = if rng.chance(100) { " { todo!() }" } else { ";" };
        items.push(format!(
            "{attrs}{asyncness}fn {mname}{i}{}({}) {ret}{default_body}",
            if has_a { "<'a>" } else { "" },
            params.join(", ")
        ));
    }
    if rng.chance(100) {
        items.push("type Assoc;".to_string());
    }
    if rng.chance(40) {
        items.push("const C: u8;".to_string());
    }
    let generics = match rng.below(12) {
        0 | 1 => "<T>",
        2 => "<T: Clone + Send, U>",
        3 => "<'t, T: 't>",
        4 => "<const N: usize>",
        _ => "",
    };
    if rng.chance(80) {
        items.push("type Out: Send + 'static;".to_string());
    }
    if rng.chance(60) {
        items.push("fn generic_m<V: Into<String>>(&self, v: V) -> String where V: Send;".to_string());
    }
    if rng.chance(60) {
        items.push("#[cfg(test)] fn only_in_test(&self);".to_string());
    }
    let supers = match rng.below(12) {
        0 | 1 => ": Sized + 'static",
        2 => ": Send + Sync",
        3 => ": Bar + Baz",
        _ => "",
    };
    let attrs = if rng.chance(150) { "#[async_trait::async_trait] " } else { "" };
    let vis = *rng.pick(&["", "pub ", "pub(crate) "]);
    let unsafety = if rng.chance(30) { "unsafe " } else { "" };
    let wh = if rng.chance(80) { " where Self: Sized" } else { "" };
    format!(
        "{attrs}{vis}{unsafety}trait {name}{generics}{supers}{wh} {{ {} }}",
        items.join(" ")
    )
}

fn gen_trait_attr(rng: &mut Rng) -> (String, Vec<String>) {
    let mut names = vec![];
    let mut parts: Vec<String> = vec![];
    if rng.chance(400) {
        let it = *rng.pick(&["FooImpl", "BarImpl", "pub FooImpl"]);
        names.push(it.trim_start_matches("pub ").to_string());
        parts.push(it.to_string());
    }
    let all = [
        "delegate_by = ref",
        "delegate_by = Borrow",
        "delegate_by = Self",
        "delegate_by = DelegateFoo",
        "delegate_by",
        "mock_api = FooMock",
        "unimock",
        "unimock = false",
        "mockall",
        "?Send",
        "debug = false",
        "no_deps",
        "export",
        "bogus = 1",
    ];
    let n = rng.below(4);
    for _ in 0..n {
        let k = if rng.chance(900) { rng.below(11) } else { 11 + rng.below(3) } as usize;
        parts.push(all[k].to_string());
    }
    (parts.join(", "), names)
}

fn gen_impl_text(rng: &mut Rng) -> (String, Vec<String>) {
    let tr = *rng.pick(&["FooImpl", "BarImpl", "some::path::FooImpl"]);
    let ty = *rng.pick(&["MyType", "Other", "Wrapper<i32>"]);
    let n = 1 + rng.below(3) as usize;
    let mut items = vec![];
    for _ in 0..n {
        let name = *rng.pick(&FN_NAMES);
        items.push(gen_fn_text(rng, name, true));
    }
    if rng.chance(150) {
        items.push("type Assoc = i32;".to_string());
    }
    let attrs = if rng.chance(150) { "#[async_trait::async_trait] " } else { "" };
    (
        format!("{attrs}impl {tr} for {ty} {{ {} }}", items.join(" ")),
        vec![tr.rsplit("::").next().unwrap().to_string(), ty.to_string()],
    )
}

/// One generated program; `kind` in 0..5.
pub fn generate(rng: &mut Rng) -> Program {
    let variant = if rng.chance(700) {
        "entrait"
    } else {
        *rng.pick(&VARIANTS)
    }
    .to_string();
    match rng.below(10) {
        0..=3 => {
            let name = *rng.pick(&FN_NAMES);
            let (attr, mut names) = gen_fn_attr(rng);
            names.push(name.to_string());
            Program {
                variant,
                attr,
                item: gen_fn_text(rng, name, false),
                origin: "gen:fn".to_string(),
                names,
            }
        }
        4..=5 if rng.chance(120) => {
            // a WIDE module: many fns, each with its own deps bounds plus bounds shared with the
            // others (what bound merging / de-duplication code has to get right)
            let mname = *rng.pick(&["wide", "m", "svc"]);
            let (attr, mut names) = gen_fn_attr(rng);
            names.push(mname.to_string());
            let n = rng.range(5, 14) as usize;
            let shared = *rng.pick(&["Common", "Bar", "Clock"]);
            let mut items = vec![];
            for i in 0..n {
                let asy = if rng.chance(250) { "async " } else { "" };
                let dep = match rng.below(4) {
                    0 => format!("deps: &(impl {shared} + Only{i})"),
                    1 => format!("deps: &(impl Only{i} + {shared} + Only{})", i + 1),
                    2 => format!("deps: &(impl {shared} + Only{} + Only{i})", (i + 5) % n),
                    _ => format!("deps: &impl Only{i}"),
                };
                items.push(format!("pub {asy}fn w{i}({dep}, x: i32) -> i32 {{ x }}"));
            }
            Program {
                variant,
                attr,
                item: format!("pub mod {mname} {{ {} }}", items.join(" ")),
                origin: "gen:widemod".to_string(),
                names,
            }
        }
        4..=5 => {
            let mname = *rng.pick(&["m", "foo", "repo"]);
            let (attr, mut names) = gen_fn_attr(rng);
            names.push(mname.to_string());
            let n = rng.below(5) as usize;
            let mut items = vec![];
            for _ in 0..n {
                if rng.chance(750) {
                    let name = *rng.pick(&FN_NAMES);
                    items.push(gen_fn_text(rng, name, true));
                } else {
                    items.push(gen_unknown_item(rng));
                }
            }
            let vis = *rng.pick(&["", "pub "]);
            Program {
                variant,
                attr,
                item: format!("{vis}mod {mname} {{ {} }}", items.join(" ")),
                origin: "gen:mod".to_string(),
                names,
            }
        }
        6..=7 => {
            let name = *rng.pick(&TRAIT_NAMES);
            let (attr, mut names) = gen_trait_attr(rng);
            names.push(name.to_string());
            Program {
                variant,
                attr,
                item: gen_trait_text(rng, name),
                origin: "gen:trait".to_string(),
                names,
            }
        }
        8 => {
            let (item, names) = gen_impl_text(rng);
            let attr = (*rng.pick(&["", "", "ref", "dyn", "ref, debug = false", "unimock"])).to_string();
            Program {
                variant,
                attr,
                item,
                origin: "gen:impl".to_string(),
                names,
            }
        }
        _ => {
            // things the macro does not support
            let item = (*rng.pick(&[
                "struct X;",
                "const A: i32 = 1;",
                "fn foo(&self) {}",
                "fn foo() {}",
                "impl MyType { fn a() {} }",
                "mod m;",
                "auto trait Foo {}",
                "unsafe mod m {}",
                "fn",
                "",
                "trait Foo { fn a(); const X: u8; }",
                "enum E { A }",
            ]))
            .to_string();
            let (attr, names) = gen_fn_attr(rng);
            Program {
                variant,
                attr,
                item,
                origin: "gen:unsupported".to_string(),
                names,
            }
        }
    }
}

/// The workload for one check run: all harvested programs (in their own
/// variant and, for a sample, in the other three) plus `n_generated` distinct
/// generated ones.
/// The gensim corpus (several hundred entrait invocations of systematically varied shapes,
/// all accepted by the macro) doubles as workload for the session simulator.
pub fn harvest_corpus(verif: &Path) -> Vec<Program> {
    let mut out = vec![];
    let f = verif.join("gensim/src/corpus.rs");
    if let Ok(text) = std::fs::read_to_string(&f) {
        if let Ok(file) = syn::parse_file(&text) {
            let mut h = Harvester {
                origin: "verif/gensim/src/corpus.rs".to_string(),
                out: vec![],
            };
            h.visit_file(&file);
            out = h.out;
        }
    }
    out
}

pub fn build_workload(repo: &Path, seed: u64, n_generated: usize) -> (Vec<Program>, usize) {
    build_workload_with(repo, None, seed, n_generated)
}

pub fn build_workload_with(repo: &Path, verif: Option<&Path>, seed: u64, n_generated: usize) -> (Vec<Program>, usize) {
    let mut harvested = harvest(repo);
    let n_harvested = harvested.len();
    if let Some(v) = verif {
        let mut seen: std::collections::BTreeSet<u64> = harvested.iter().map(|p| p.key()).collect();
        for p in harvest_corpus(v) {
            if seen.insert(p.key()) {
                harvested.push(p);
            }
        }
    }
    let mut out = harvested.clone();
    let mut seen: std::collections::BTreeSet<u64> = out.iter().map(|p| p.key()).collect();
    let mut rng = Rng::new(seed ^ 0x5e55_1a11);
    // harvested items under the other entry points
    for p in &harvested {
        for v in VARIANTS {
            if v != p.variant && rng.chance(400) {
                let mut q = p.clone();
                q.variant = v.to_string();
                if seen.insert(q.key()) {
                    out.push(q);
                }
            }
        }
    }
    let mut attempts = 0;
    let mut generated = 0;
    while generated < n_generated && attempts < n_generated * 20 {
        attempts += 1;
        let p = generate(&mut rng);
        if p.attr.parse::<proc_macro2::TokenStream>().is_err()
            || p.item.parse::<proc_macro2::TokenStream>().is_err()
        {
            continue;
        }
        if seen.insert(p.key()) {
            out.push(p);
            generated += 1;
        }
    }
    // attribute siblings: the SAME item under an attribute that differs in exactly one option
    // (a cache or memo keyed by less than the whole (attribute, item) pair needs two such
    // invocations in one history to show)
    let toggle = |attr: &str, opt: &str| -> String {
        let parts: Vec<String> = attr.split(',').map(|x| x.trim().to_string()).filter(|x| !x.is_empty()).collect();
        let head = opt.split('=').next().unwrap().trim().to_string();
        if parts.iter().any(|x| x.split('=').next().unwrap().trim() == head) {
            parts.into_iter().filter(|x| x.split('=').next().unwrap().trim() != head).collect::<Vec<_>>().join(", ")
        } else {
            let mut v = parts;
            v.push(opt.to_string());
            v.join(", ")
        }
    };
    let base: Vec<Program> = out.clone();
    for p in &base {
        if p.variant != "entrait" {
            continue;
        }
        let is_async = p.item.contains("async");
        for (opt, pm) in [("?Send", if is_async { 1000 } else { 120 }), ("export", 150), ("unimock = false", 100), ("mockall = false", 60)] {
            if rng.chance(pm) {
                let mut q = p.clone();
                q.attr = toggle(&p.attr, opt);
                q.origin = format!("{} (sibling: {opt} toggled)", p.origin);
                if q.attr.parse::<proc_macro2::TokenStream>().is_ok() && seen.insert(q.key()) {
                    out.push(q);
                }
            }
        }
    }
    (out, n_harvested)
}
