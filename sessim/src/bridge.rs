//! Real-bridge tier (DESIGN §3.8): real rustc sessions with the shipped
//! proc-macro. Placeholder until the tier is built.

use crate::driver::{References, Workload};
use crate::exec::HarnessError;
use serde_json::{json, Value};
use std::path::Path;

pub struct BridgeReport {
    pub summary: Value,
    pub violations: Vec<Value>,
}

#[allow(clippy::too_many_arguments)]
pub fn run(_verif: &Path, _repo: &Path, _exe: &Path, _seed: u64, _sessions: usize, _w: &Workload, _refs: &References, _workers: usize) -> Result<BridgeReport, HarnessError> {
    Ok(BridgeReport { summary: json!({"sessions": 0, "note": "tier not built yet"}), violations: vec![] })
}

pub fn replay(_doc: &Value) -> i32 {
    2
}
