//! Real-bridge tier (DESIGN §3.8): real rustc sessions running the *shipped*
//! proc-macro (guard off), i.e. the real `invoke` and the four wrappers.
//!
//! A session is a generated `lib.rs` with N invocations in a PRNG-chosen
//! order, exactly one of them carrying `debug`, compiled by a real rustc under
//! a PRNG-chosen environment, cwd and hash seed (LD_PRELOAD `getrandom` seam).
//! The macro prints that one expansion on rustc's stdout. Two uses:
//!  (a) across real sessions the output for one program must be identical —
//!      a difference is a genuine C20 violation (covers `invoke` itself);
//!  (b) against sessim's in-process reference for the same program, which
//!      validates the `verif::expand` mirror and proc-macro2's fallback. A
//!      disagreement here is never a VIOLATION: if the text of `invoke` changed
//!      since the mirror was written the mirror is stale (reported in the
//!      evidence), otherwise the stub is unfaithful (harness error).

use crate::driver::{RefResult, References, Workload, ENV_NAMES, ENV_VALUES};
use crate::exec::{HarnessError, Scratch};
use crate::plan::Program;
use serde_json::{json, Value};
use simcore::Rng;
use std::collections::BTreeMap;
use std::path::{Path, PathBuf};
use std::process::{Command, Stdio};
use std::sync::atomic::{AtomicU64, Ordering};
use std::sync::Mutex;

pub struct BridgeReport {
    pub summary: Value,
    pub violations: Vec<Value>,
}

/// FNV hash of the token text of `invoke`, `set_fallbacks` and the four
/// wrappers as they were when `verif::expand` was written (pinned tree).
const MIRRORED_TEXT_HASH: &str = "f3fca80708bcddfd";

fn shell_split(s: &str) -> Vec<String> {
    let mut out = vec![];
    let mut cur = String::new();
    let mut in_s = false;
    let mut in_d = false;
    let mut any = false;
    let mut chars = s.chars().peekable();
    while let Some(c) = chars.next() {
        match c {
            '\'' if !in_d => {
                in_s = !in_s;
                any = true;
            }
            '"' if !in_s => {
                in_d = !in_d;
                any = true;
            }
            '\\' if !in_s => {
                if let Some(n) = chars.next() {
                    cur.push(n);
                    any = true;
                }
            }
            c if c.is_whitespace() && !in_s && !in_d => {
                if any || !cur.is_empty() {
                    out.push(std::mem::take(&mut cur));
                    any = false;
                }
            }
            c => {
                cur.push(c);
                any = true;
            }
        }
    }
    if any || !cur.is_empty() {
        out.push(cur);
    }
    out
}

pub struct RustcCmd {
    pub program: String,
    /// arguments with the source path and --out-dir value replaced by
    /// placeholders "@SRC@" / "@OUT@"
    pub args: Vec<String>,
}

fn mirrored_text_hash(repo: &Path) -> Option<String> {
    let text = std::fs::read_to_string(repo.join("entrait_macros/src/lib.rs")).ok()?;
    let file = syn::parse_file(&text).ok()?;
    let mut h = simcore::fnv1a64(b"mirror");
    for item in &file.items {
        if let syn::Item::Fn(f) = item {
            let name = f.sig.ident.to_string();
            if ["invoke", "set_fallbacks", "entrait", "entrait_export", "entrait_unimock", "entrait_export_unimock"].contains(&name.as_str()) {
                let mut f = f.clone();
                f.attrs.retain(|a| !a.path().is_ident("cfg") && !a.path().is_ident("doc"));
                use quote::ToTokens;
                h = simcore::fnv_extend(h, f.to_token_stream().to_string().as_bytes());
            }
        }
    }
    Some(simcore::hex64(h))
}

fn prepare_crate(verif: &Path, repo: &Path) -> Result<(PathBuf, RustcCmd), HarnessError> {
    let dir = verif.join("scratch/bridge/crate");
    std::fs::create_dir_all(dir.join("src")).map_err(|e| HarnessError(format!("bridge crate: {e}")))?;
    let manifest = format!(
        "[package]\nname = \"bridge_scratch\"\nversion = \"0.0.0\"\nedition = \"2021\"\n\n[workspace]\n\n[dependencies]\nentrait = {{ path = \"{}\" }}\nentrait_macros = {{ path = \"{}/entrait_macros\" }}\n",
        repo.display(),
        repo.display()
    );
    std::fs::write(dir.join("Cargo.toml"), manifest).map_err(|e| HarnessError(e.to_string()))?;
    // unique content forces cargo to re-run rustc so that -v prints the command
    let stamp = simcore::real_now_s();
    std::fs::write(dir.join("src/lib.rs"), format!("// {stamp}\npub fn bridge_probe() {{}}\n")).map_err(|e| HarnessError(e.to_string()))?;
    if !dir.join("Cargo.lock").exists() {
        let _ = std::fs::copy(repo.join("Cargo.lock"), dir.join("Cargo.lock"));
    }
    let out = Command::new("cargo")
        .args(["check", "-v", "--offline", "--lib"])
        .current_dir(&dir)
        .env("CARGO_TARGET_DIR", verif.join("target/bridge"))
        .env("CARGO_NET_OFFLINE", "true")
        .env_remove("RUSTFLAGS")
        .env_remove("CARGO_ENCODED_RUSTFLAGS")
        .env_remove("RUSTC_WRAPPER")
        .stdin(Stdio::null())
        .output()
        .map_err(|e| HarnessError(format!("cargo check: {e}")))?;
    let stderr = String::from_utf8_lossy(&out.stderr).to_string();
    if !out.status.success() {
        return Err(HarnessError(format!(
            "the shipped macro does not build (cargo check of the bridge crate failed): {}",
            stderr.lines().filter(|l| l.starts_with("error")).take(3).collect::<Vec<_>>().join(" | ")
        )));
    }
    let line = stderr
        .lines()
        .find(|l| l.contains("Running") && l.contains("--crate-name bridge_scratch"))
        .ok_or_else(|| HarnessError("could not find the rustc command line in `cargo check -v` output".into()))?;
    let start = line.find('`').ok_or_else(|| HarnessError("malformed Running line".into()))?;
    let end = line.rfind('`').unwrap_or(line.len());
    let words = shell_split(&line[start + 1..end]);
    // skip leading VAR=value words
    let mut it = words.into_iter().peekable();
    while it.peek().map(|w| w.contains('=') && !w.contains('/') && !w.starts_with('-')).unwrap_or(false) {
        it.next();
    }
    let program = it.next().ok_or_else(|| HarnessError("empty rustc command".into()))?;
    let mut args = vec![];
    let mut skip_next = false;
    let mut raw: Vec<String> = it.collect();
    let mut i = 0;
    while i < raw.len() {
        let a = std::mem::take(&mut raw[i]);
        i += 1;
        if skip_next {
            skip_next = false;
            continue;
        }
        if a.starts_with("--error-format") || a.starts_with("--json") || a.starts_with("--diagnostic-width") {
            continue;
        }
        if a == "-C" && raw.get(i).map(|n| n.starts_with("incremental")).unwrap_or(false) {
            skip_next = true;
            continue;
        }
        if a.starts_with("-Cincremental") {
            continue;
        }
        if a == "--out-dir" {
            args.push(a);
            args.push("@OUT@".into());
            skip_next = true;
            continue;
        }
        if a.ends_with("src/lib.rs") {
            args.push("@SRC@".into());
            continue;
        }
        args.push(a);
    }
    args.push("--cap-lints".into());
    args.push("allow".into());
    if !args.iter().any(|a| a == "@SRC@") {
        return Err(HarnessError("source path not found in rustc command".into()));
    }
    Ok((dir, RustcCmd { program, args }))
}

#[derive(Clone)]
pub struct Session {
    pub source: String,
    pub env: Vec<(String, String)>,
    pub hash_seed: u64,
    pub cwd_sub: String,
    /// the program whose expansion is printed
    pub subject: Program,
    pub position: usize,
    pub n: usize,
}

fn attr_path(variant: &str) -> String {
    format!("::entrait_macros::{variant}")
}

fn add_debug(p: &Program) -> Program {
    let kind_impl = matches!(syn::parse_str::<syn::Item>(&p.item), Ok(syn::Item::Impl(_)));
    let attr = if p.attr.trim().is_empty() {
        "debug".to_string()
    } else if kind_impl {
        format!("{} debug", p.attr.trim())
    } else {
        format!("{}, debug", p.attr.trim().trim_end_matches(','))
    };
    Program {
        variant: p.variant.clone(),
        attr,
        item: p.item.clone(),
        origin: p.origin.clone(),
        names: p.names.clone(),
    }
}

fn render(p: &Program, idx: usize) -> String {
    format!("mod s{idx} {{\n    #[{}({})]\n    {}\n}}\n", attr_path(&p.variant), p.attr, p.item)
}

const BRIDGE_ENV_SKIP: [&str; 6] = ["RUST_LOG", "RUSTC_WRAPPER", "TMPDIR", "RUST_BACKTRACE", "RUSTC_BOOTSTRAP", "RUSTFLAGS"];

fn gen_session(rng: &mut Rng, pool: &[Program]) -> Session {
    let n = rng.range(1, 8) as usize;
    let position = rng.below(n as u64) as usize;
    let mut source = String::from("#![allow(warnings)]\n");
    let mut subject = None;
    for i in 0..n {
        let p = rng.pick(pool);
        if i == position {
            let d = add_debug(p);
            source.push_str(&render(&d, i));
            subject = Some(d);
        } else {
            source.push_str(&render(p, i));
        }
    }
    let mut env = vec![];
    let n_env = rng.below(5);
    for _ in 0..n_env {
        let name = *rng.pick(&ENV_NAMES);
        if BRIDGE_ENV_SKIP.contains(&name) {
            continue;
        }
        if name == "PATH" {
            // the session's directory has stand-in tools in bin/ (see run_session)
            env.push((name.to_string(), (*rng.pick(&["$SCRATCH/bin", "$SCRATCH/bin:/usr/bin:/bin", "/usr/bin:/bin"])).to_string()));
            continue;
        }
        env.push((name.to_string(), rng.pick(&ENV_VALUES).to_string()));
    }
    Session {
        source,
        env,
        hash_seed: rng.next_u64() >> 1,
        cwd_sub: (*rng.pick(&["", "a", "b"])).to_string(),
        subject: subject.unwrap(),
        position,
        n,
    }
}

/// Token-for-token canonical form: every leaf token separated by one space,
/// punctuation one character at a time (so that spacing / jointness, which
/// differs between rustc's printer and proc-macro2's, plays no role).
fn canon(ts: proc_macro2::TokenStream, out: &mut String) {
    for tt in ts {
        match tt {
            proc_macro2::TokenTree::Group(g) => {
                let (o, c) = match g.delimiter() {
                    proc_macro2::Delimiter::Parenthesis => ("(", ")"),
                    proc_macro2::Delimiter::Brace => ("{", "}"),
                    proc_macro2::Delimiter::Bracket => ("[", "]"),
                    proc_macro2::Delimiter::None => ("", ""),
                };
                out.push_str(o);
                out.push(' ');
                canon(g.stream(), out);
                out.push_str(c);
                out.push(' ');
            }
            proc_macro2::TokenTree::Ident(i) => {
                out.push_str(&i.to_string());
                out.push(' ');
            }
            proc_macro2::TokenTree::Punct(p) => {
                out.push(p.as_char());
                out.push(' ');
            }
            proc_macro2::TokenTree::Literal(l) => {
                // rustc's token printer glues `1 . 0` (tuple-index chains such as `p.1.0`) into
                // the float-looking `1.0`; undo that on both sides so the comparison stays
                // token-for-token
                let t = l.to_string();
                let mut parts = t.splitn(2, '.');
                match (parts.next(), parts.next()) {
                    (Some(a), Some(b)) if !a.is_empty() && !b.is_empty() && a.bytes().all(|c| c.is_ascii_digit()) && b.bytes().all(|c| c.is_ascii_digit()) => {
                        out.push_str(a);
                        out.push_str(" . ");
                        out.push_str(b);
                    }
                    _ => out.push_str(&t),
                }
                out.push(' ');
            }
        }
    }
}

fn normalise(text: &str) -> Option<String> {
    text.parse::<proc_macro2::TokenStream>().ok().map(|t| {
        let mut s = String::new();
        canon(t, &mut s);
        s
    })
}

pub struct SessionOutput {
    pub raw_stdout: String,
    pub normalised: Option<String>,
    pub status_ok: bool,
}

fn run_session(cmd: &RustcCmd, preload: &Path, dir: &Path, s: &Session) -> Result<SessionOutput, HarnessError> {
    let _ = std::fs::remove_dir_all(dir);
    std::fs::create_dir_all(dir.join("out")).map_err(|e| HarnessError(e.to_string()))?;
    let cwd = if s.cwd_sub.is_empty() { dir.to_path_buf() } else { dir.join(&s.cwd_sub) };
    std::fs::create_dir_all(&cwd).map_err(|e| HarnessError(e.to_string()))?;
    let src = dir.join("lib.rs");
    std::fs::write(&src, &s.source).map_err(|e| HarnessError(e.to_string()))?;
    let args: Vec<String> = cmd
        .args
        .iter()
        .map(|a| match a.as_str() {
            "@SRC@" => src.display().to_string(),
            "@OUT@" => dir.join("out").display().to_string(),
            _ => a.clone(),
        })
        .collect();
    // stand-in external tools a macro might spawn (they copy stdin and append a marker item)
    {
        use std::os::unix::fs::PermissionsExt;
        let bin = dir.join("bin");
        let _ = std::fs::create_dir_all(&bin);
        for tool in ["rustfmt", "rustc", "cargo", "git"] {
            let path = bin.join(tool);
            if std::fs::write(&path, "#!/bin/sh\ncat\necho ' const _SIMULATED_TOOL_OUTPUT : () = () ;'\n").is_ok() {
                let _ = std::fs::set_permissions(&path, std::fs::Permissions::from_mode(0o755));
            }
        }
    }
    let mut c = Command::new(&cmd.program);
    c.args(&args).current_dir(&cwd).env_clear();
    for (k, v) in &s.env {
        c.env(k, v.replace("$SCRATCH", &dir.display().to_string()));
    }
    c.env("TMPDIR", dir)
        .env("LD_PRELOAD", preload)
        .env("SESSIM_HASH_SEED", s.hash_seed.to_string())
        .stdin(Stdio::null())
        .stdout(Stdio::piped())
        .stderr(Stdio::null());
    let out = c.output().map_err(|e| HarnessError(format!("rustc: {e}")))?;
    let raw = String::from_utf8_lossy(&out.stdout).to_string();
    Ok(SessionOutput {
        normalised: if raw.trim().is_empty() { None } else { normalise(&raw) },
        raw_stdout: raw,
        status_ok: out.status.success(),
    })
}

fn session_json(s: &Session, out: &SessionOutput) -> Value {
    json!({
        "source": s.source, "env": s.env.iter().map(|(k, v)| json!([k, v])).collect::<Vec<_>>(),
        "hash_seed": s.hash_seed.to_string(), "cwd_sub": s.cwd_sub, "position": s.position, "n": s.n,
        "subject": s.subject.to_json(), "printed": out.raw_stdout,
    })
}

#[allow(clippy::too_many_arguments)]
pub fn run(verif: &Path, repo: &Path, exe: &Path, seed: u64, sessions: usize, w: &Workload, refs: &References, workers: usize) -> Result<BridgeReport, HarnessError> {
    let t0 = simcore::real_now_s();
    let preload = exe.parent().unwrap().join("libsessim_preload.so");
    if !preload.exists() {
        return Err(HarnessError(format!("{} not built", preload.display())));
    }
    let (_crate_dir, cmd) = prepare_crate(verif, repo)?;
    // only programs rustc can parse as items take part (a syntax error would
    // abort the whole session before any expansion)
    let pool: Vec<Program> = w
        .programs
        .iter()
        // rustc evaluates `cfg` / `cfg_attr` before the attribute macro sees the item,
        // so such programs are not the same input in the two worlds
        .filter(|p| syn::parse_str::<syn::Item>(&p.item).is_ok() && !p.attr.contains("debug") && !p.item.contains("cfg"))
        .cloned()
        .collect();
    if pool.len() < 10 {
        return Err(HarnessError("too few parseable programs for the real-bridge tier".into()));
    }
    let next = AtomicU64::new(0);
    let results: Mutex<Vec<(Session, SessionOutput)>> = Mutex::new(vec![]);
    let errors: Mutex<Vec<String>> = Mutex::new(vec![]);
    let base = verif.join("scratch/bridge");
    std::thread::scope(|sc| {
        for slot in 0..workers {
            let (next, results, errors, cmd, preload, pool, base) = (&next, &results, &errors, &cmd, &preload, &pool, &base);
            sc.spawn(move || loop {
                let i = next.fetch_add(1, Ordering::SeqCst);
                if i as usize >= sessions {
                    break;
                }
                let mut rng = Rng::for_run(seed ^ 0xb41d_6e00, i);
                let s = gen_session(&mut rng, pool);
                match run_session(cmd, preload, &base.join(format!("s{slot}")), &s) {
                    Ok(o) => results.lock().unwrap().push((s, o)),
                    Err(e) => errors.lock().unwrap().push(e.0),
                }
            });
        }
    });
    let errors = errors.into_inner().unwrap();
    if let Some(e) = errors.first() {
        return Err(HarnessError(format!("{e} ({} failed sessions)", errors.len())));
    }
    let results = results.into_inner().unwrap();
    let mut printed = 0usize;
    let mut silent = 0usize;
    let mut by_prog: BTreeMap<u64, Vec<usize>> = BTreeMap::new();
    for (i, (s, o)) in results.iter().enumerate() {
        if o.normalised.is_some() {
            printed += 1;
            by_prog.entry(s.subject.key()).or_default().push(i);
        } else {
            silent += 1;
        }
    }
    if printed * 5 < results.len() {
        return Err(HarnessError(format!("only {printed} of {} real sessions printed an expansion", results.len())));
    }
    // (a) across real sessions
    let mut violations = vec![];
    let mut compared_pairs = 0usize;
    for idxs in by_prog.values() {
        let first = &results[idxs[0]];
        for j in &idxs[1..] {
            compared_pairs += 1;
            let other = &results[*j];
            if other.1.normalised != first.1.normalised && violations.is_empty() {
                let path = verif.join("replays").join(format!("C20-{seed}-bridge.json"));
                let doc = json!({
                    "property": "C20", "kind": "real-bridge", "seed": seed as i64,
                    "class": "two real compiler sessions printed different expansions for one (attr, item)",
                    "rustc": {"program": cmd.program, "args": cmd.args},
                    "preload": preload.display().to_string(),
                    "session_a": session_json(&first.0, &first.1),
                    "session_b": session_json(&other.0, &other.1),
                    "replay": format!("./check C20 --replay {}", path.display()),
                });
                let _ = std::fs::create_dir_all(path.parent().unwrap());
                let _ = std::fs::write(&path, serde_json::to_string_pretty(&doc).unwrap() + "\n");
                violations.push(json!({
                    "summary": format!("program {:?} expanded differently in two real rustc sessions (position {} of {} vs {} of {})",
                        first.0.subject.attr, first.0.position, first.0.n, other.0.position, other.0.n),
                    "replay": path.display().to_string(),
                }));
            }
        }
    }
    // (b) against the in-process reference (mirror validation)
    let scratch = Scratch::new(&verif.join("scratch").join("sessim"), 950);
    let mut mirror_checked = 0usize;
    let mut mirror_disagree = 0usize;
    let mut mirror_example = Value::Null;
    for (key, idxs) in by_prog.iter().take(400) {
        let (s, o) = &results[idxs[0]];
        let _ = key;
        let r = refs.compute(exe, &scratch, &s.subject, true)?;
        let text = match r {
            RefResult::Ok(o) => o.text,
            RefResult::Disagree(_, a, _, _) => a.text,
        };
        let Some(text) = text else { continue };
        let expect = normalise(&text);
        mirror_checked += 1;
        if expect != o.normalised {
            mirror_disagree += 1;
            if mirror_example.is_null() {
                mirror_example = json!({"program": s.subject.to_json(), "real": o.normalised, "in_process": expect});
            }
        }
    }
    let now_hash = mirrored_text_hash(repo).unwrap_or_default();
    let mirror_text_changed = now_hash != MIRRORED_TEXT_HASH;
    let mirror_state = if mirror_disagree == 0 {
        "faithful"
    } else if mirror_text_changed {
        "STALE: the text of invoke/wrappers changed since verif::expand was written; in-process verdict covers the shared expansion code only, (a) covers invoke"
    } else {
        "UNEXPLAINED DISAGREEMENT (printing artefact of the observation channel, or an unfaithful stub) — reported, not a verdict"
    };
    if mirror_disagree > 0 && !mirror_text_changed {
        // Not a verdict about entrait and not a reason to fail the check: the observation
        // channel (rustc printing the `debug` expansion, re-lexed) is lossy in ways that are
        // independent of the macro (the printer glues or re-spaces some token sequences). The
        // disagreement is reported in the evidence; tier (a), which compares real sessions
        // with each other, is unaffected by it.
        println!("sessim: WARNING real-bridge mirror validation: {mirror_disagree} of {mirror_checked} programs print differently through rustc than in-process although invoke's text is unchanged (see evidence: real_bridge.mirror_validation.example)");
    }
    let wall = simcore::real_now_s() - t0;
    Ok(BridgeReport {
        summary: json!({
            "sessions": results.len(),
            "sessions_that_printed_an_expansion": printed,
            "sessions_silent (macro rejected the debug-carrying invocation or rustc stopped earlier)": silent,
            "sessions_where_rustc_succeeded": results.iter().filter(|r| r.1.status_ok).count(),
            "distinct_programs_observed": by_prog.len(),
            "programs_observed_in_two_or_more_sessions": by_prog.values().filter(|v| v.len() > 1).count(),
            "cross_session_comparisons": compared_pairs,
            "cross_session_differences": violations.len(),
            "mirror_validation": {"programs_compared": mirror_checked, "disagreements": mirror_disagree, "state": mirror_state,
                                  "invoke_text_hash_now": now_hash, "invoke_text_hash_mirrored": MIRRORED_TEXT_HASH, "example": mirror_example},
            "seams": "LD_PRELOAD getrandom (hash keys), environment, cwd, invocation order and count; no interleaving, thread placement or panic injection (rustc expands on one thread; the shipped macro has no fault points)",
            "wall_s": (wall * 100.0).round() / 100.0,
            "sessions_per_hour": (results.len() as f64 / wall.max(1e-9) * 3600.0).round(),
        }),
        violations,
    })
}

pub fn mirror_hash_now(repo: &Path) -> String {
    mirrored_text_hash(repo).unwrap_or_default()
}

pub fn replay(doc: &Value, file: &str, verif: &Path) -> i32 {
    // rebuild the shipped macro from the current working tree first
    let cmd = match prepare_crate(verif, Path::new("/repo")) {
        Ok((_, cmd)) => cmd,
        Err(e) => {
            eprintln!("HARNESS-ERROR: {}", e.0);
            return 2;
        }
    };
    let preload = PathBuf::from(doc["preload"].as_str().unwrap_or(""));
    let load = |v: &Value| -> Session {
        Session {
            source: v["source"].as_str().unwrap_or("").to_string(),
            env: v["env"].as_array().map(|a| a.iter().map(|kv| (kv[0].as_str().unwrap_or("").to_string(), kv[1].as_str().unwrap_or("").to_string())).collect()).unwrap_or_default(),
            hash_seed: v["hash_seed"].as_str().and_then(|s| s.parse().ok()).unwrap_or(0),
            cwd_sub: v["cwd_sub"].as_str().unwrap_or("").to_string(),
            subject: Program::from_json(&v["subject"]),
            position: v["position"].as_u64().unwrap_or(0) as usize,
            n: v["n"].as_u64().unwrap_or(0) as usize,
        }
    };
    let (a, b) = (load(&doc["session_a"]), load(&doc["session_b"]));
    let base = verif.join("scratch/bridge/replay");
    let oa = run_session(&cmd, &preload, &base.join("a"), &a);
    let ob = run_session(&cmd, &preload, &base.join("b"), &b);
    match (oa, ob) {
        (Ok(oa), Ok(ob)) => {
            println!("session A printed: {}", oa.raw_stdout.trim());
            println!("session B printed: {}", ob.raw_stdout.trim());
            if oa.normalised != ob.normalised {
                println!("VIOLATION property=C20 replay={file}");
                1
            } else {
                println!("replay: the two real sessions agree (not reproduced on this tree)");
                0
            }
        }
        _ => {
            eprintln!("HARNESS-ERROR: could not run the real sessions");
            2
        }
    }
}
