//! The seeded search: plan generation, the reference model, the per-job and
//! per-history oracles, statistics and the evidence file.

use crate::exec::{exec_plan, outcome_of, HarnessError, JobOutcome, RunLog, Scratch};
use crate::plan::{Decision, Epoch, Job, Plan, Program};
use serde_json::{json, Value};
use simcore::Rng;
use std::collections::{BTreeMap, BTreeSet};
use std::path::{Path, PathBuf};
#[allow(unused_imports)]
use syn;
use std::sync::atomic::{AtomicBool, AtomicU64, Ordering};
use std::sync::Mutex;

pub const ENV_NAMES: [&str; 34] = [
    "PATH", "PATH",
    "CARGO", "CARGO_MANIFEST_DIR", "CARGO_PKG_NAME", "CARGO_PKG_VERSION", "CARGO_CRATE_NAME",
    "CARGO_TARGET_DIR", "CARGO_FEATURE_UNIMOCK", "CARGO_CFG_TEST", "CARGO_PRIMARY_PACKAGE",
    "CARGO_BUILD_JOBS", "RUSTFLAGS", "RUSTC_BOOTSTRAP", "RUSTC_WRAPPER", "PROFILE", "DEBUG",
    "OPT_LEVEL", "OUT_DIR", "TARGET", "HOST", "NUM_JOBS", "LANG", "LC_ALL", "TZ",
    "SOURCE_DATE_EPOCH", "HOME", "TMPDIR", "TERM", "NO_COLOR", "RUST_LOG", "RUST_BACKTRACE",
    "ENTRAIT_DEBUG", "ENTRAIT_EXPORT",
];
pub const ENV_VALUES: [&str; 12] = [
    "", "1", "0", "true", "false", "debug", "release", "unimock", "/nonexistent", ".",
    "\u{fffd}\u{0301}x=y", "--cfg test",
];
const CLOCKS: [i64; 8] = [0, 1, 1_790_000_000, 2_147_483_647, 2_147_483_648, 4_102_444_800, 946_684_800, 86_399];

pub struct Workload {
    pub programs: Vec<Program>,
    pub n_harvested: usize,
    /// name -> program indices
    pub by_name: BTreeMap<String, Vec<usize>>,
    /// string literals found in the macro's own sources that look like
    /// environment variable names / values: fault injection aimed at the
    /// sites the code actually has ("buggify knows the fault sites")
    pub src_env_names: Vec<String>,
    pub src_env_values: Vec<String>,
}

impl Workload {
    pub fn new(programs: Vec<Program>, n_harvested: usize) -> Workload {
        let mut by_name: BTreeMap<String, Vec<usize>> = BTreeMap::new();
        for (i, p) in programs.iter().enumerate() {
            for n in &p.names {
                by_name.entry(n.clone()).or_default().push(i);
            }
        }
        Workload {
            programs,
            n_harvested,
            by_name,
            src_env_names: vec![],
            src_env_values: vec![],
        }
    }

    /// Scan the macro sources for string literals (see `src_env_names`).
    pub fn harvest_literals(&mut self, repo: &Path) {
        use syn::visit::Visit;
        struct V {
            lits: Vec<String>,
        }
        impl<'ast> Visit<'ast> for V {
            fn visit_lit_str(&mut self, l: &'ast syn::LitStr) {
                self.lits.push(l.value());
            }
            fn visit_macro(&mut self, m: &'ast syn::Macro) {
                // literals inside macro invocations (format!, env!, option_env!, ...)
                for tt in m.tokens.clone() {
                    collect_lits(tt, &mut self.lits);
                }
            }
        }
        fn collect_lits(tt: proc_macro2::TokenTree, out: &mut Vec<String>) {
            match tt {
                proc_macro2::TokenTree::Literal(l) => {
                    if let Ok(s) = syn::parse_str::<syn::LitStr>(&l.to_string()) {
                        out.push(s.value());
                    }
                }
                proc_macro2::TokenTree::Group(g) => {
                    for t in g.stream() {
                        collect_lits(t, out);
                    }
                }
                _ => {}
            }
        }
        let mut files = vec![];
        fn walk(d: &Path, out: &mut Vec<std::path::PathBuf>) {
            if let Ok(rd) = std::fs::read_dir(d) {
                let mut es: Vec<_> = rd.flatten().map(|e| e.path()).collect();
                es.sort();
                for p in es {
                    if p.is_dir() {
                        walk(&p, out);
                    } else if p.extension().map(|e| e == "rs").unwrap_or(false) {
                        out.push(p);
                    }
                }
            }
        }
        walk(&repo.join("entrait_macros/src"), &mut files);
        let mut v = V { lits: vec![] };
        for f in files {
            if let Ok(text) = std::fs::read_to_string(&f) {
                if let Ok(file) = syn::parse_file(&text) {
                    v.visit_file(&file);
                }
            }
        }
        let mut names = BTreeSet::new();
        let mut values = BTreeSet::new();
        for l in v.lits {
            let is_name = l.len() >= 3 && l.len() <= 40 && l.chars().all(|c| c.is_ascii_uppercase() || c.is_ascii_digit() || c == '_') && l.chars().next().map(|c| c.is_ascii_uppercase()).unwrap_or(false);
            if is_name && !ENV_NAMES.contains(&l.as_str()) {
                names.insert(l);
            } else if !l.is_empty() && l.len() <= 16 && !l.contains(' ') && !l.contains('{') {
                values.insert(l);
            }
        }
        self.src_env_names = names.into_iter().take(24).collect();
        self.src_env_values = values.into_iter().take(40).collect();
    }

    pub fn env_name(&self, rng: &mut Rng) -> String {
        if !self.src_env_names.is_empty() && rng.chance(350) {
            rng.pick(&self.src_env_names).clone()
        } else {
            rng.pick(&ENV_NAMES).to_string()
        }
    }

    /// `PATH` gets values that make sense for it: the simulated machine has a directory of
    /// stand-in tools (`$SCRATCH/bin`: rustfmt, rustc, cargo, git, ... — each copies stdin to
    /// stdout and appends a marker item) that a macro spawning an external program would find.
    pub fn env_value_for(&self, name: &str, rng: &mut Rng) -> String {
        if name == "PATH" {
            return (*rng.pick(&["$SCRATCH/bin", "$SCRATCH/bin:/usr/bin:/bin", "/usr/bin:/bin", "", "/nonexistent"])).to_string();
        }
        self.env_value(rng)
    }

    pub fn env_value(&self, rng: &mut Rng) -> String {
        if !self.src_env_values.is_empty() && rng.chance(250) {
            rng.pick(&self.src_env_values).clone()
        } else {
            rng.pick(&ENV_VALUES).to_string()
        }
    }
}

/// Swarm configuration of one run: which fault kinds are on, at what rate
/// (per mille per scheduling event).
#[derive(Clone, Debug)]
pub struct Swarm {
    pub switch: u64,
    pub panic: u64,
    pub env: u64,
    pub cwd: u64,
    pub clock: u64,
    pub new_thread: u64,
}

fn gen_swarm(rng: &mut Rng) -> Swarm {
    let pick = |rng: &mut Rng, xs: &[u64]| *rng.pick(xs);
    Swarm {
        switch: pick(rng, &[0, 50, 150, 400, 700]),
        panic: pick(rng, &[0, 0, 0, 5, 15, 30]),
        env: pick(rng, &[0, 0, 30, 100]),
        cwd: pick(rng, &[0, 0, 20, 60]),
        clock: pick(rng, &[0, 0, 30, 100]),
        new_thread: pick(rng, &[0, 0, 100, 300]),
    }
}

pub fn gen_plan(rng: &mut Rng, w: &Workload) -> (Plan, Swarm) {
    let swarm = gen_swarm(rng);
    let n_jobs = match rng.below(100) {
        0..=49 => rng.range(2, 6),
        50..=84 => rng.range(7, 16),
        85..=97 => rng.range(17, 40),
        // long sessions: state that only shows after many invocations in one process
        _ => rng.range(80, 300),
    } as usize;
    let long_session = n_jobs >= 80;
    // programs of this run: biased towards sharing identifiers
    let k = rng.range(1, (n_jobs as u64).min(8)) as usize;
    let mut chosen: Vec<usize> = vec![rng.below(w.programs.len() as u64) as usize];
    let mut attempts = 0;
    while chosen.len() < k && attempts < k * 6 {
        attempts += 1;
        let next = if rng.chance(650) {
            let base = &w.programs[*rng.pick(&chosen)];
            if base.names.is_empty() {
                rng.below(w.programs.len() as u64) as usize
            } else {
                let name = rng.pick(&base.names);
                *rng.pick(&w.by_name[name])
            }
        } else {
            rng.below(w.programs.len() as u64) as usize
        };
        if !chosen.contains(&next) {
            chosen.push(next);
        }
    }
    let programs: Vec<Program> = chosen.iter().map(|i| w.programs[*i].clone()).collect();
    let n_workers = rng.range(1, 4) as u32;
    let mut next_fresh = n_workers;
    let mut jobs: Vec<Job> = vec![];
    for _ in 0..n_jobs {
        let prog = rng.below(programs.len() as u64) as usize;
        let thread = if rng.chance(swarm.new_thread) && next_fresh < 8 {
            next_fresh += 1;
            next_fresh - 1
        } else {
            rng.below(n_workers as u64) as u32
        };
        jobs.push(Job { prog, thread });
    }
    let n_epochs = if long_session {
        1
    } else {
        match rng.below(10) {
            0..=6 => 1,
            7..=8 => 2,
            _ => 3,
        }
        .min(n_jobs)
    };
    // contiguous split
    let mut cuts: Vec<usize> = (0..n_epochs - 1)
        .map(|_| rng.range(1, n_jobs as u64 - 1) as usize)
        .collect();
    cuts.sort();
    cuts.dedup();
    let mut epochs = vec![];
    let mut start = 0;
    let mut bounds = cuts.clone();
    bounds.push(n_jobs);
    for end in bounds {
        if end <= start {
            continue;
        }
        let ejobs: Vec<Job> = jobs[start..end].to_vec();
        start = end;
        let n_dec = if long_session { 200 } else { (ejobs.len() * 14 + 8).min(400) };
        let mut decisions = Vec::with_capacity(n_dec);
        for _ in 0..n_dec {
            decisions.push(gen_decision(rng, &swarm, w));
        }
        let mut env = vec![];
        if rng.chance(600) {
            let n_env = rng.below(6);
            for _ in 0..n_env {
                let n = w.env_name(rng);
                let v = w.env_value_for(&n, rng);
                env.push((n, v));
            }
        }
        epochs.push(Epoch {
            hash_seed: rng.next_u64(),
            clock_s: if rng.chance(500) {
                *rng.pick(&CLOCKS)
            } else {
                rng.below(4_000_000_000) as i64
            },
            pid: rng.range(1, 4_000_000) as i64,
            env,
            cpus: *rng.pick(&[1u32, 1, 2, 3, 4, 8, 16, 64]),
            tty: rng.chance(200),
            argv: if rng.chance(450) { rng.pick(&ARGVS).iter().map(|s| s.to_string()).collect() } else { vec![] },
            jobs: ejobs,
            decisions,
        });
    }
    (Plan { programs, epochs }, swarm)
}

/// command lines a compiler session may have been started with (appended to the epoch process's)
const ARGVS: [&[&str]; 8] = [
    &["--test"],
    &["--edition=2021", "--crate-type", "lib"],
    &["--cfg", "test"],
    &["-C", "opt-level=3", "-C", "debug-assertions=off"],
    &["--crate-name", "foo", "--test", "-C", "debuginfo=2"],
    &["--crate-type", "proc-macro", "--cfg", "feature=\"unimock\""],
    &["--cap-lints", "allow", "-C", "incremental=/tmp/inc"],
    &["check", "--release"],
];

fn gen_decision(rng: &mut Rng, s: &Swarm, w: &Workload) -> Decision {
    let r = rng.below(1000);
    let mut acc = s.switch;
    if r < acc {
        return Decision::Switch(rng.below(4) as u32);
    }
    acc += s.panic;
    if r < acc {
        return Decision::Panic;
    }
    acc += s.env;
    if r < acc {
        return if rng.chance(650) {
            {
                let n = w.env_name(rng);
                let v = w.env_value_for(&n, rng);
                Decision::EnvSet(n, v)
            }
        } else {
            Decision::EnvUnset(w.env_name(rng))
        };
    }
    acc += s.cwd;
    if r < acc {
        return Decision::Cwd((*rng.pick(&["", "a", "b", "a/deep"])).to_string());
    }
    acc += s.clock;
    if r < acc {
        return Decision::Clock(if rng.chance(500) {
            *rng.pick(&CLOCKS)
        } else {
            rng.below(4_000_000_000) as i64
        });
    }
    Decision::Cont
}

// ---------------------------------------------------------------------------
// reference model
// ---------------------------------------------------------------------------

pub struct References {
    map: Mutex<BTreeMap<u64, JobOutcome>>,
}

pub enum RefResult {
    Ok(JobOutcome),
    /// the two pristine solo sessions already disagree
    Disagree(Plan, JobOutcome, Plan, JobOutcome),
}

impl References {
    pub fn new() -> Self {
        References {
            map: Mutex::new(BTreeMap::new()),
        }
    }
    pub fn len(&self) -> usize {
        self.map.lock().unwrap().len()
    }
    pub fn get(&self, key: u64) -> Option<JobOutcome> {
        self.map.lock().unwrap().get(&key).cloned()
    }
    /// R(program): the output of a pristine solo session, computed in two
    /// solo processes with different hash keys and clock.
    pub fn compute(&self, exe: &Path, scratch: &Scratch, p: &Program, full: bool) -> Result<RefResult, HarnessError> {
        let key = p.key();
        if !full {
            if let Some(o) = self.get(key) {
                return Ok(RefResult::Ok(o));
            }
        }
        let plan_a = Plan::solo(p, 0x0123_4567_89ab_cdef ^ key, 1_790_000_000);
        let mut plan_b = Plan::solo(p, 0xfedc_ba98_7654_3210 ^ key.rotate_left(13), 17);
        plan_b.epochs[0].env = vec![("PATH".to_string(), "$SCRATCH/bin:/usr/bin:/bin".to_string())];
        plan_b.epochs[0].cpus = 4;
        plan_b.epochs[0].tty = true;
        plan_b.epochs[0].argv = ["--test", "--crate-name", "ref_b", "--edition=2021", "--cfg", "test", "-C", "opt-level=3"].iter().map(|s| s.to_string()).collect();
        // the second solo session runs the macro as built WITH debug assertions (and overflow
        // checks) when that flavour of the simulator exists: what `cargo build` vs
        // `cargo build --release` of a consumer means for a proc-macro
        let exe_b = alt_flavour(exe);
        let a = solo_outcome(&exec_plan(exe, &plan_a, scratch, full)?)?;
        let b = solo_outcome(&exec_plan(exe_b.as_deref().unwrap_or(exe), &plan_b, scratch, full)?)?;
        if !a.same_output(&b) {
            return Ok(RefResult::Disagree(plan_a, a, plan_b, b));
        }
        self.map.lock().unwrap().insert(key, a.clone());
        Ok(RefResult::Ok(a))
    }
}

/// `<verif>/target/sessim-dbg/release/sessim` next to `<verif>/target/sessim/release/sessim`.
pub fn alt_flavour(exe: &Path) -> Option<PathBuf> {
    let s = exe.display().to_string();
    if !s.contains("/target/sessim/") {
        return None;
    }
    let alt = PathBuf::from(s.replacen("/target/sessim/", "/target/sessim-dbg/", 1));
    if alt.is_file() {
        Some(alt)
    } else {
        None
    }
}

fn solo_outcome(log: &RunLog) -> Result<JobOutcome, HarnessError> {
    for ev in &log.epochs[0].events {
        if ev["ev"] == "done" {
            return Ok(outcome_of(ev));
        }
    }
    Err(HarnessError("solo session produced no outcome".into()))
}

// ---------------------------------------------------------------------------
// oracle
// ---------------------------------------------------------------------------

#[derive(Clone, Debug)]
pub struct Divergence {
    pub epoch: usize,
    pub job: usize,
    pub prog_key: u64,
    pub expected: JobOutcome,
    pub actual: JobOutcome,
}

/// Per-job invariant: output == R(program). History check: every job is
/// accounted for exactly once as completed or crashed.
pub fn check_run(plan: &Plan, log: &RunLog, refs: &dyn Fn(&Program) -> Result<JobOutcome, HarnessError>) -> Result<Vec<Divergence>, HarnessError> {
    let mut out = vec![];
    for (ei, (epoch, elog)) in plan.epochs.iter().zip(&log.epochs).enumerate() {
        let mut seen = vec![0u32; epoch.jobs.len()];
        for ev in &elog.events {
            if ev["ev"] == "done" {
                let j = ev["job"].as_u64().unwrap_or(u64::MAX) as usize;
                if j >= epoch.jobs.len() {
                    return Err(HarnessError(format!("done for unknown job {j}")));
                }
                seen[j] += 1;
                let actual = outcome_of(ev);
                if actual.kind == "crashed" {
                    continue;
                }
                let p = &plan.programs[epoch.jobs[j].prog];
                let expected = refs(p)?;
                if !expected.same_output(&actual) {
                    out.push(Divergence {
                        epoch: ei,
                        job: j,
                        prog_key: p.key(),
                        expected,
                        actual,
                    });
                }
            }
        }
        if seen.iter().any(|c| *c != 1) {
            return Err(HarnessError(format!(
                "history check: jobs not accounted for exactly once in epoch {ei}: {seen:?}"
            )));
        }
    }
    Ok(out)
}

// ---------------------------------------------------------------------------
// statistics
// ---------------------------------------------------------------------------

#[derive(Default)]
pub struct Stats {
    pub runs: u64,
    pub epochs: u64,
    pub jobs: u64,
    pub jobs_completed: u64,
    pub jobs_crashed: u64,
    pub jobs_rejected: u64,
    pub jobs_panicked_own: u64,
    pub steps: u64,
    pub faults_fired: BTreeMap<String, u64>,
    pub faults_not_fired: BTreeMap<String, u64>,
    pub mid_expansion_switches: u64,
    pub runs_with_mid_switch: u64,
    pub max_in_flight: u64,
    pub points: BTreeMap<String, u64>,
    pub hashed_path_taken_ge2: u64,
    pub hash_probes: BTreeSet<u64>,
    pub threads_spawned: u64,
    pub getrandom_calls: u64,
    pub clock_reads_by_sut: u64,
    pub getpid_calls_by_sut: u64,
    pub affinity_calls_by_sut: u64,
    pub epochs_private_fs: u64,
    pub epochs_shared_fs: u64,
    pub epochs_stderr_tty: u64,
    pub fs_leftovers: u64,
    pub pred_pairs: BTreeSet<u64>,
    pub interleavings: BTreeSet<u64>,
    pub histories_nontrivial: BTreeSet<u64>,
    pub histories_all: BTreeSet<u64>,
    pub programs_exercised: BTreeSet<u64>,
    pub sim_clock_min: i64,
    pub sim_clock_max: i64,
}

impl Stats {
    pub fn new() -> Stats {
        Stats {
            sim_clock_min: i64::MAX,
            sim_clock_max: i64::MIN,
            ..Default::default()
        }
    }
    pub fn merge(&mut self, o: Stats) {
        self.runs += o.runs;
        self.epochs += o.epochs;
        self.jobs += o.jobs;
        self.jobs_completed += o.jobs_completed;
        self.jobs_crashed += o.jobs_crashed;
        self.jobs_rejected += o.jobs_rejected;
        self.jobs_panicked_own += o.jobs_panicked_own;
        self.steps += o.steps;
        for (k, v) in o.faults_fired {
            *self.faults_fired.entry(k).or_default() += v;
        }
        for (k, v) in o.faults_not_fired {
            *self.faults_not_fired.entry(k).or_default() += v;
        }
        self.mid_expansion_switches += o.mid_expansion_switches;
        self.runs_with_mid_switch += o.runs_with_mid_switch;
        self.max_in_flight = self.max_in_flight.max(o.max_in_flight);
        for (k, v) in o.points {
            *self.points.entry(k).or_default() += v;
        }
        self.hashed_path_taken_ge2 += o.hashed_path_taken_ge2;
        self.hash_probes.extend(o.hash_probes);
        self.threads_spawned += o.threads_spawned;
        self.getrandom_calls += o.getrandom_calls;
        self.clock_reads_by_sut += o.clock_reads_by_sut;
        self.getpid_calls_by_sut += o.getpid_calls_by_sut;
        self.affinity_calls_by_sut += o.affinity_calls_by_sut;
        self.epochs_private_fs += o.epochs_private_fs;
        self.epochs_shared_fs += o.epochs_shared_fs;
        self.epochs_stderr_tty += o.epochs_stderr_tty;
        self.fs_leftovers += o.fs_leftovers;
        self.pred_pairs.extend(o.pred_pairs);
        self.interleavings.extend(o.interleavings);
        self.histories_nontrivial.extend(o.histories_nontrivial);
        self.histories_all.extend(o.histories_all);
        self.programs_exercised.extend(o.programs_exercised);
        self.sim_clock_min = self.sim_clock_min.min(o.sim_clock_min);
        self.sim_clock_max = self.sim_clock_max.max(o.sim_clock_max);
    }

    pub fn record(&mut self, plan: &Plan, log: &RunLog) {
        self.runs += 1;
        let mut any_fault = false;
        let mut mid_switch = false;
        let mut history = simcore::fnv1a64(b"history");
        for (epoch, elog) in plan.epochs.iter().zip(&log.epochs) {
            self.epochs += 1;
            self.jobs += epoch.jobs.len() as u64;
            self.sim_clock_min = self.sim_clock_min.min(epoch.clock_s);
            self.sim_clock_max = self.sim_clock_max.max(epoch.clock_s);
            let mut last_on_thread: BTreeMap<u64, u64> = BTreeMap::new();
            let mut in_flight: BTreeSet<u64> = BTreeSet::new();
            let mut sig = simcore::fnv1a64(b"interleaving");
            history = simcore::fnv_extend(history, elog.raw.as_bytes());
            for ev in &elog.events {
                let kind = ev["ev"].as_str().unwrap_or("");
                match kind {
                    "spawn" => {
                        self.threads_spawned += 1;
                        if let Some(h) = ev["hash_probe"].as_str() {
                            self.hash_probes.insert(u64::from_str_radix(h, 16).unwrap_or(0));
                        }
                    }
                    "start" => {
                        let t = ev["thread"].as_u64().unwrap_or(0);
                        let j = ev["job"].as_u64().unwrap_or(0);
                        in_flight.insert(j);
                        self.max_in_flight = self.max_in_flight.max(in_flight.len() as u64);
                        let key = plan.programs[ev["prog"].as_u64().unwrap_or(0) as usize].key();
                        self.programs_exercised.insert(key);
                        if let Some(prev) = last_on_thread.insert(t, key) {
                            self.pred_pairs.insert(prev.rotate_left(21) ^ key);
                        }
                        sig = simcore::fnv_extend(sig, &[b's', t as u8]);
                    }
                    "resume" => {
                        let t = ev["thread"].as_u64().unwrap_or(0);
                        sig = simcore::fnv_extend(sig, &[b'r', t as u8]);
                    }
                    "point" => {
                        let id = ev["id"].as_str().unwrap_or("?");
                        *self.points.entry(id.to_string()).or_default() += 1;
                        if id == "fn_params::autogenerate" && ev["detail"].as_u64().unwrap_or(0) >= 2 {
                            self.hashed_path_taken_ge2 += 1;
                        }
                        let t = ev["thread"].as_u64().unwrap_or(0);
                        sig = simcore::fnv_extend(sig, &[b'p', t as u8]);
                    }
                    "fault" => {
                        let k = ev["kind"].as_str().unwrap_or("?").to_string();
                        if ev["fired"].as_bool().unwrap_or(false) {
                            any_fault = true;
                            if k == "worker_switch" && ev["mid_expansion"].as_bool().unwrap_or(false) {
                                self.mid_expansion_switches += 1;
                                mid_switch = true;
                            }
                            if k == "clock_jump" {
                                let t = ev["to"].as_i64().unwrap_or(0);
                                self.sim_clock_min = self.sim_clock_min.min(t);
                                self.sim_clock_max = self.sim_clock_max.max(t);
                            }
                            *self.faults_fired.entry(k).or_default() += 1;
                        } else {
                            *self.faults_not_fired.entry(k).or_default() += 1;
                        }
                    }
                    "done" => {
                        let j = ev["job"].as_u64().unwrap_or(0);
                        in_flight.remove(&j);
                        match ev["kind"].as_str().unwrap_or("") {
                            "crashed" => self.jobs_crashed += 1,
                            "rejected" => {
                                self.jobs_completed += 1;
                                self.jobs_rejected += 1
                            }
                            "panicked" => {
                                self.jobs_completed += 1;
                                self.jobs_panicked_own += 1
                            }
                            _ => self.jobs_completed += 1,
                        }
                    }
                    "disk" => {
                        if ev["private_mounts"].as_bool().unwrap_or(false) {
                            self.epochs_private_fs += 1;
                        } else {
                            self.epochs_shared_fs += 1;
                        }
                        if ev["stderr_tty"].as_bool().unwrap_or(false) {
                            self.epochs_stderr_tty += 1;
                        }
                    }
                    "end" => {
                        self.steps += ev["steps"].as_u64().unwrap_or(0);
                        self.getrandom_calls += ev["getrandom_calls"].as_u64().unwrap_or(0);
                        self.clock_reads_by_sut += ev["clock_calls"].as_u64().unwrap_or(0);
                        self.getpid_calls_by_sut += ev["getpid_calls"].as_u64().unwrap_or(0);
                        self.affinity_calls_by_sut += ev["affinity_calls"].as_u64().unwrap_or(0);
                    }
                    _ => {}
                }
            }
            self.interleavings.insert(sig);
            // placement on a thread beyond the first is a (structural) fault
            // kind of its own: fresh thread-locals and hash keys
            let threads: BTreeSet<u32> = epoch.jobs.iter().map(|j| j.thread).collect();
            if threads.len() > 1 {
                *self.faults_fired.entry("placement_new_thread".into()).or_default() += threads.len() as u64 - 1;
                any_fault = true;
            }
            if !epoch.env.is_empty() {
                *self.faults_fired.entry("env_initial".into()).or_default() += epoch.env.len() as u64;
                if !epoch.argv.is_empty() {
                    *self.faults_fired.entry("argv_extra".into()).or_default() += 1;
                }
                any_fault = true;
            }
        }
        if plan.epochs.len() > 1 {
            *self.faults_fired.entry("process_restart".into()).or_default() += plan.epochs.len() as u64 - 1;
            any_fault = true;
        }
        // error_invocation: a rejected program followed by another job
        if mid_switch {
            self.runs_with_mid_switch += 1;
        }
        self.fs_leftovers += log.leftovers.len() as u64;
        self.histories_all.insert(history);
        if any_fault && shares_identifier(plan) {
            self.histories_nontrivial.insert(history);
        }
    }
}

/// at least two jobs whose programs share an identifier (two different
/// programs with a common name, or one program invoked twice)
pub fn shares_identifier(plan: &Plan) -> bool {
    let mut used: Vec<usize> = vec![];
    for e in &plan.epochs {
        for j in &e.jobs {
            used.push(j.prog);
        }
    }
    for (a_i, a) in used.iter().enumerate() {
        for b in &used[a_i + 1..] {
            if a == b {
                return true;
            }
            let (pa, pb) = (&plan.programs[*a], &plan.programs[*b]);
            if pa.names.iter().any(|n| pb.names.contains(n)) {
                return true;
            }
        }
    }
    false
}

// ---------------------------------------------------------------------------
// the search
// ---------------------------------------------------------------------------

pub struct SearchConfig {
    pub exe: PathBuf,
    pub scratch_base: PathBuf,
    pub seed: u64,
    pub max_runs: u64,
    pub wall_cap_s: f64,
    pub det_sample: u64,
    pub workers: usize,
}

pub struct Violation {
    pub run_index: u64,
    pub class: String,
    pub plan: Plan,
    pub divergences: Vec<Divergence>,
    pub note: String,
}

pub struct SearchResult {
    pub stats: Stats,
    pub violations: Vec<Violation>,
    pub harness_errors: Vec<String>,
    /// runs whose epoch process had to be killed by the watchdog (no verdict from those runs)
    pub hung_runs: Vec<String>,
    pub samples: Vec<Value>,
    pub det_checked: u64,
    pub det_mismatch_harness: u64,
    pub wall_s: f64,
    pub reference_wall_s: f64,
}

pub fn compute_references(cfg: &SearchConfig, w: &Workload, refs: &References) -> Result<Vec<Violation>, HarnessError> {
    let next = AtomicU64::new(0);
    let errors: Mutex<Vec<String>> = Mutex::new(vec![]);
    let violations: Mutex<Vec<Violation>> = Mutex::new(vec![]);
    std::thread::scope(|s| {
        for slot in 0..cfg.workers {
            let next = &next;
            let errors = &errors;
            let violations = &violations;
            s.spawn(move || {
                let scratch = Scratch::new(&cfg.scratch_base, slot);
                loop {
                    let i = next.fetch_add(1, Ordering::SeqCst) as usize;
                    if i >= w.programs.len() {
                        break;
                    }
                    // a harness that cannot run its sessions at all fails fast instead of timing out
                    // on every one of them
                    if errors.lock().unwrap().len() >= 8 {
                        break;
                    }
                    match refs.compute(&cfg.exe, &scratch, &w.programs[i], false) {
                        Ok(RefResult::Ok(_)) => {}
                        Ok(RefResult::Disagree(pa, a, pb, b)) => {
                            let mut plan = pa.clone();
                            plan.epochs.extend(pb.epochs.clone());
                            violations.lock().unwrap().push(Violation {
                                run_index: i as u64,
                                class: "reference-stage: two pristine solo sessions disagree".into(),
                                plan,
                                divergences: vec![Divergence {
                                    epoch: 1,
                                    job: 0,
                                    prog_key: w.programs[i].key(),
                                    expected: a,
                                    actual: b,
                                }],
                                note: "the two epochs are the two solo sessions".into(),
                            });
                        }
                        Err(e) => errors.lock().unwrap().push(format!("{} [program {}]", e.0, w.programs[i].key())),
                    }
                }
            });
        }
    });
    let errors = errors.into_inner().unwrap();
    if std::env::var_os("SESSIM_DEBUG_ERRORS").is_some() {
        for e in &errors {
            eprintln!("sessim: reference-stage error: {e}");
        }
    }
    if let Some(e) = errors.first() {
        return Err(HarnessError(format!("reference stage: {e} ({} errors)", errors.len())));
    }
    Ok(violations.into_inner().unwrap())
}

fn compact_history(plan: &Plan, log: &RunLog, swarm: &Swarm) -> Value {
    let mut evs = vec![];
    for (ei, elog) in log.epochs.iter().enumerate() {
        for ev in &elog.events {
            let s = match ev["ev"].as_str().unwrap_or("") {
                "spawn" => format!("e{ei} spawn t{} keys={}", ev["thread"], ev["hash_probe"].as_str().unwrap_or("")),
                "start" => format!("e{ei} t{} start job{} prog{}", ev["thread"], ev["job"], ev["prog"]),
                "resume" => format!("e{ei} t{} resume job{}", ev["thread"], ev["job"]),
                "point" => format!("e{ei} t{} job{} @{}", ev["thread"], ev["job"], ev["id"].as_str().unwrap_or("")),
                "fault" => format!("e{ei} FAULT {} fired={}", ev["kind"].as_str().unwrap_or(""), ev["fired"]),
                "done" => format!("e{ei} t{} done job{} {} {}", ev["thread"], ev["job"], ev["kind"].as_str().unwrap_or(""), ev["hash"].as_str().unwrap_or("")),
                _ => continue,
            };
            evs.push(s);
        }
    }
    let truncated = evs.len() > 60;
    evs.truncate(60);
    json!({
        "programs": plan.programs.iter().map(|p| json!({"variant": p.variant, "attr": p.attr, "item": if p.item.len() > 160 { format!("{}…", &p.item.chars().take(160).collect::<String>()) } else { p.item.clone() }, "origin": p.origin})).collect::<Vec<_>>(),
        "swarm_per_mille": {"switch": swarm.switch, "panic": swarm.panic, "env": swarm.env, "cwd": swarm.cwd, "clock": swarm.clock, "new_thread": swarm.new_thread},
        "epochs": plan.epochs.len(),
        "events": evs,
        "events_truncated": truncated,
    })
}

pub fn search(cfg: &SearchConfig, w: &Workload, refs: &References) -> SearchResult {
    let t0 = simcore::real_now_s();
    let next = AtomicU64::new(0);
    let stop = AtomicBool::new(false);
    let merged: Mutex<Stats> = Mutex::new(Stats::new());
    let violations: Mutex<Vec<Violation>> = Mutex::new(vec![]);
    let hangs: Mutex<Vec<String>> = Mutex::new(vec![]);
    let errors: Mutex<Vec<String>> = Mutex::new(vec![]);
    let samples: Mutex<BTreeMap<u64, Value>> = Mutex::new(BTreeMap::new());
    let det_checked = AtomicU64::new(0);
    let det_mismatch_harness = AtomicU64::new(0);

    std::thread::scope(|s| {
        for slot in 0..cfg.workers {
            let (next, stop, merged, violations, errors, samples) = (&next, &stop, &merged, &violations, &errors, &samples);
            let (det_checked, det_mismatch_harness) = (&det_checked, &det_mismatch_harness);
            let hangs = &hangs;
            s.spawn(move || {
                let scratch = Scratch::new(&cfg.scratch_base, slot);
                let mut stats = Stats::new();
                loop {
                    if stop.load(Ordering::SeqCst) {
                        break;
                    }
                    let i = next.fetch_add(1, Ordering::SeqCst);
                    if i >= cfg.max_runs || simcore::real_now_s() - t0 > cfg.wall_cap_s {
                        break;
                    }
                    let mut rng = Rng::for_run(cfg.seed, i);
                    let (plan, swarm) = gen_plan(&mut rng, w);
                    let log = match exec_plan(&cfg.exe, &plan, &scratch, false) {
                        Ok(l) => l,
                        Err(e) if e.0.contains("watchdog timeout") => {
                            // an epoch process that never finished (e.g. two expansions parked by the
                            // scheduler inside a critical section a changed macro introduced): no verdict
                            // from THIS run; the search goes on, other runs may still show a divergence
                            let mut h = hangs.lock().unwrap();
                            h.push(format!("run {i}: {}", e.0));
                            if h.len() >= 6 {
                                stop.store(true, Ordering::SeqCst);
                                break;
                            }
                            continue;
                        }
                        Err(e) => {
                            errors.lock().unwrap().push(format!("run {i}: {}", e.0));
                            stop.store(true, Ordering::SeqCst);
                            break;
                        }
                    };
                    let lookup = |p: &Program| -> Result<JobOutcome, HarnessError> {
                        refs.get(p.key()).ok_or_else(|| HarnessError("no reference".into()))
                    };
                    match check_run(&plan, &log, &lookup) {
                        Ok(divs) if divs.is_empty() => {}
                        Ok(divs) => {
                            violations.lock().unwrap().push(Violation {
                                run_index: i,
                                class: "output differs from the pristine solo reference".into(),
                                plan: plan.clone(),
                                divergences: divs,
                                note: String::new(),
                            });
                            stop.store(true, Ordering::SeqCst);
                        }
                        Err(e) => {
                            errors.lock().unwrap().push(format!("run {i}: {}", e.0));
                            stop.store(true, Ordering::SeqCst);
                            break;
                        }
                    }
                    stats.record(&plan, &log);
                    if i < 3 || (i < 400 && i % 133 == 0) {
                        samples.lock().unwrap().insert(i, compact_history(&plan, &log, &swarm));
                    }
                    // second-order oracle: same plan, second execution, same log
                    if i < cfg.det_sample {
                        match exec_plan(&cfg.exe, &plan, &scratch, false) {
                            Ok(log2) => {
                                det_checked.fetch_add(1, Ordering::SeqCst);
                                if log2.raw() != log.raw() {
                                    if only_hashes_differ(&log, &log2) {
                                        violations.lock().unwrap().push(Violation {
                                            run_index: i,
                                            class: "two executions of one plan differ in output only: a nondeterminism source the simulator does not own reached the output".into(),
                                            plan: plan.clone(),
                                            divergences: vec![],
                                            note: "replay exactness not guaranteed for this class".into(),
                                        });
                                    } else {
                                        det_mismatch_harness.fetch_add(1, Ordering::SeqCst);
                                        if std::env::var_os("SESSIM_DEBUG_DET").is_some() {
                                            let _ = std::fs::write(cfg.scratch_base.join(format!("det-{i}-a.log")), log.raw());
                                            let _ = std::fs::write(cfg.scratch_base.join(format!("det-{i}-b.log")), log2.raw());
                                        }
                                        errors.lock().unwrap().push(format!("run {i}: scheduling events differ between two executions of one plan"));
                                    }
                                    stop.store(true, Ordering::SeqCst);
                                }
                            }
                            Err(e) => {
                                errors.lock().unwrap().push(format!("run {i} (2nd execution): {}", e.0));
                                stop.store(true, Ordering::SeqCst);
                                break;
                            }
                        }
                    }
                }
                merged.lock().unwrap().merge(stats);
            });
        }
    });
    let samples: Vec<Value> = samples.into_inner().unwrap().into_values().take(3).collect();
    SearchResult {
        stats: merged.into_inner().unwrap(),
        violations: violations.into_inner().unwrap(),
        harness_errors: errors.into_inner().unwrap(),
        hung_runs: hangs.into_inner().unwrap(),
        samples,
        det_checked: det_checked.load(Ordering::SeqCst),
        det_mismatch_harness: det_mismatch_harness.load(Ordering::SeqCst),
        wall_s: simcore::real_now_s() - t0,
        reference_wall_s: 0.0,
    }
}

fn only_hashes_differ(a: &RunLog, b: &RunLog) -> bool {
    if a.epochs.len() != b.epochs.len() {
        return false;
    }
    for (ea, eb) in a.epochs.iter().zip(&b.epochs) {
        if ea.events.len() != eb.events.len() {
            return false;
        }
        for (x, y) in ea.events.iter().zip(&eb.events) {
            if x == y {
                continue;
            }
            if x["ev"] == "done" && y["ev"] == "done" {
                let mut x2 = x.clone();
                let mut y2 = y.clone();
                for v in [&mut x2, &mut y2] {
                    let o = v.as_object_mut().unwrap();
                    o.remove("hash");
                    o.remove("text");
                    o.remove("kind");
                }
                if x2 == y2 {
                    continue;
                }
            }
            return false;
        }
    }
    true
}
