//! sessim — the compiler-session simulator that decides C20 (expansion is a
//! pure function of (attribute, item)). See /verif/DESIGN.md §3.

mod bridge;
mod child;
mod driver;
mod exec;
mod minimise;
mod plan;
mod programs;
mod seams;

use driver::{References, SearchConfig, Violation, Workload};
use exec::{exec_plan, JobOutcome, Scratch};
use plan::{Plan, Program};
use serde_json::{json, Value};
use std::path::{Path, PathBuf};

const PROPERTY: &str = "C20";

fn arg_value(args: &[String], name: &str) -> Option<String> {
    args.iter()
        .position(|a| a == name)
        .and_then(|i| args.get(i + 1).cloned())
}

fn main() {
    let args: Vec<String> = std::env::args().collect();
    let code = match args.get(1).map(|s| s.as_str()) {
        Some("child") => child::run_child(),
        Some("check") => check(&args),
        Some("replay") => replay(&args),
        Some("own-panics") => {
            // diagnostic: which workload programs make the macro itself panic
            let (progs, _) = programs::build_workload(Path::new("/repo"), simcore::env_seed(), 1800);
            let exe = std::env::current_exe().unwrap();
            let scratch = Scratch::new(Path::new("/verif/scratch/sessim"), 901);
            let mut by_msg: std::collections::BTreeMap<String, Vec<String>> = Default::default();
            for p in &progs {
                let plan = Plan::solo(p, 1, 0);
                if let Ok(log) = exec_plan(&exe, &plan, &scratch, true) {
                    for ev in &log.epochs[0].events {
                        if ev["ev"] == "done" && ev["kind"] == "panicked" {
                            by_msg.entry(ev["text"].as_str().unwrap_or("").to_string()).or_default().push(format!("#[{}({})] {}", p.variant, p.attr, p.item));
                        }
                    }
                }
            }
            for (m, ps) in by_msg {
                println!("{} programs panic with {m:?}; e.g.\n   {}\n   {}", ps.len(), ps[0], ps[ps.len() / 2]);
            }
            0
        }
        Some("mirror-hash") => {
            println!("{}", bridge::mirror_hash_now(Path::new("/repo")));
            0
        }
        Some("workload") => {
            let (progs, nh) = programs::build_workload(Path::new("/repo"), simcore::env_seed(), 200);
            println!("{} programs, {} harvested", progs.len(), nh);
            for p in progs.iter().take(400) {
                println!("[{}] #[{}({})] {}", p.origin, p.variant, p.attr, p.item.chars().take(100).collect::<String>());
            }
            0
        }
        _ => {
            eprintln!("usage: sessim check|replay|child|workload");
            2
        }
    };
    std::process::exit(code);
}

fn outcome_json(o: &JobOutcome) -> Value {
    json!({"kind": o.kind, "debug": o.debug, "hash": o.hash, "text": o.text})
}

fn write_replay(dir: &Path, seed: u64, v: &Violation, exe: &Path, scratch: &Scratch, minimised_from: Value) -> PathBuf {
    // re-execute with full text so the file shows the two token strings
    let refs = References::new();
    let mut divs = vec![];
    let mut ref_notes = vec![];
    for p in &v.plan.programs {
        match refs.compute(exe, scratch, p, true) {
            Ok(driver::RefResult::Disagree(_, a, _, b)) => ref_notes.push(json!({
                "program": p.to_json(), "solo_a": outcome_json(&a), "solo_b": outcome_json(&b)})),
            _ => {}
        }
    }
    if let Ok(log) = exec_plan(exe, &v.plan, scratch, true) {
        let lookup = |p: &Program| refs.get(p.key()).ok_or_else(|| exec::HarnessError("no reference".into()));
        if let Ok(ds) = driver::check_run(&v.plan, &log, &lookup) {
            for d in ds {
                divs.push(json!({
                    "epoch": d.epoch, "job": d.job,
                    "program": v.plan.programs[v.plan.epochs[d.epoch].jobs[d.job].prog].to_json(),
                    "expected": outcome_json(&d.expected),
                    "actual": outcome_json(&d.actual),
                }));
            }
        }
    }
    let path = dir.join(format!("{PROPERTY}-{seed}-run{}.json", v.run_index));
    let doc = json!({
        "property": PROPERTY,
        "seed": seed as i64,
        "run_index": v.run_index,
        "class": v.class,
        "note": v.note,
        "plan": v.plan.to_json(),
        "divergences": divs,
        "reference_disagreements": ref_notes,
        "minimised_from": minimised_from,
        "replay": format!("./check {PROPERTY} --replay {}", path.display()),
    });
    let _ = std::fs::create_dir_all(dir);
    let _ = std::fs::write(&path, serde_json::to_string_pretty(&doc).unwrap() + "\n");
    path
}

fn plan_size(p: &Plan) -> Value {
    json!({
        "epochs": p.epochs.len(),
        "jobs": p.epochs.iter().map(|e| e.jobs.len()).sum::<usize>(),
        "faults": p.epochs.iter().map(|e| e.decisions.iter().filter(|d| **d != plan::Decision::Cont).count()).sum::<usize>(),
        "threads": p.epochs.iter().flat_map(|e| e.jobs.iter().map(|j| j.thread)).collect::<std::collections::BTreeSet<_>>().len(),
        "env": p.epochs.iter().map(|e| e.env.len()).sum::<usize>(),
        "item_chars": p.programs.iter().map(|p| p.item.len()).sum::<usize>(),
    })
}

fn check(args: &[String]) -> i32 {
    let t0 = simcore::real_now_s();
    let tier = arg_value(args, "--tier")
        .or_else(|| std::env::var("VERIF_TIER").ok())
        .unwrap_or_else(|| "quick".into());
    let tier = if tier == "thorough" { "thorough" } else { "quick" };
    let seed = arg_value(args, "--seed")
        .and_then(|s| s.parse::<i64>().ok())
        .map(|v| v as u64)
        .unwrap_or_else(simcore::env_seed);
    let verif = PathBuf::from(arg_value(args, "--verif").unwrap_or_else(|| "/verif".into()));
    let repo = PathBuf::from(arg_value(args, "--repo").unwrap_or_else(|| "/repo".into()));
    let evidence_path = verif.join("evidence").join(format!("{PROPERTY}.json"));
    let replays = verif.join("replays");
    let exe = std::env::current_exe().expect("current_exe");
    let workers = std::thread::available_parallelism().map(|n| n.get()).unwrap_or(4);
    let scratch_base = verif.join("scratch").join("sessim");
    let _ = std::fs::create_dir_all(&scratch_base);

    let (n_generated, max_runs, wall_cap, det_sample, bridge_sessions) = if tier == "thorough" {
        (12_000usize, 1_200_000u64, 420.0, 2_000u64, 20_000usize)
    } else {
        (1_800usize, 24_000u64, 45.0, 200u64, 800usize)
    };
    let max_runs = std::env::var("SESSIM_MAX_RUNS").ok().and_then(|s| s.parse().ok()).unwrap_or(max_runs);

    println!("sessim: property={PROPERTY} tier={tier} VERIF_SEED={seed} workers={workers}");
    let (progs, n_harvested) = programs::build_workload_with(&repo, Some(&verif), seed, n_generated);
    if n_harvested < 20 {
        eprintln!("HARNESS-ERROR: only {n_harvested} programs harvested from {}", repo.display());
        return 2;
    }
    let mut w = Workload::new(progs, n_harvested);
    w.harvest_literals(&repo);
    println!("sessim: workload {} programs ({} harvested from the working tree, rest generated)", w.programs.len(), n_harvested);

    let cfg = SearchConfig {
        exe: exe.clone(),
        scratch_base: scratch_base.clone(),
        seed,
        max_runs,
        wall_cap_s: wall_cap,
        det_sample,
        workers,
    };
    let refs = References::new();
    let tref = simcore::real_now_s();
    let mut violations = match driver::compute_references(&cfg, &w, &refs) {
        Ok(v) => v,
        Err(e) => {
            eprintln!("HARNESS-ERROR: {}", e.0);
            return 2;
        }
    };
    let reference_wall = simcore::real_now_s() - tref;
    println!("sessim: {} references from {} pristine solo sessions in {:.1}s", refs.len(), w.programs.len() * 2, reference_wall);

    let mut result = None;
    if violations.is_empty() {
        let r = driver::search(&cfg, &w, &refs);
        if !r.harness_errors.is_empty() {
            for e in r.harness_errors.iter().take(5) {
                eprintln!("HARNESS-ERROR: {e}");
            }
            return 2;
        }
        if !r.hung_runs.is_empty() {
            if r.violations.is_empty() {
                for e in r.hung_runs.iter().take(5) {
                    eprintln!("HARNESS-ERROR: {e}");
                }
                eprintln!("HARNESS-ERROR: {} run(s) hung and no other run showed a divergence: no verdict", r.hung_runs.len());
                return 2;
            }
            println!("sessim: note: {} run(s) hung (epoch process killed by the watchdog) and gave no verdict; a divergence was found in another run", r.hung_runs.len());
        }
        println!(
            "sessim: {} runs, {} epochs (processes), {} invocations, {} crashed by injection, {:.1}s ({:.0} runs/s)",
            r.stats.runs, r.stats.epochs, r.stats.jobs, r.stats.jobs_crashed, r.wall_s, r.stats.runs as f64 / r.wall_s.max(1e-9)
        );
        result = Some(r);
    }
    if let Some(r) = result.as_mut() {
        violations.append(&mut r.violations);
    }

    // real-bridge tier (validates the mirror, covers `invoke`)
    let bridge_report = if violations.is_empty() {
        match bridge::run(&verif, &repo, &exe, seed, bridge_sessions, &w, &refs, workers) {
            Ok(b) => Some(b),
            Err(e) => {
                eprintln!("HARNESS-ERROR: real-bridge tier: {}", e.0);
                return 2;
            }
        }
    } else {
        None
    };
    if let Some(b) = &bridge_report {
        for v in &b.violations {
            println!("sessim: real-bridge divergence: {}", v["summary"].as_str().unwrap_or(""));
        }
    }

    // known findings
    let known = simcore::evidence::load_known_findings(&verif.join("known_findings.json"));
    let mut reported = 0u64;
    let scratch = Scratch::new(&scratch_base, 0);
    violations.sort_by_key(|v| v.run_index);
    let mut violation_lines = vec![];
    if let Some(v) = violations.first() {
        // minimise, then write the replay file
        let before = plan_size(&v.plan);
        let mut m = minimise::Minimiser {
            exe: &exe,
            scratch: &scratch,
            refs: &refs,
            executions: 0,
            budget: 1500,
        };
        let min_plan = if v.divergences.is_empty() && !v.class.starts_with("reference") {
            v.plan.clone()
        } else {
            m.minimise(v.plan.clone())
        };
        let after = plan_size(&min_plan);
        let mv = Violation {
            run_index: v.run_index,
            class: v.class.clone(),
            plan: min_plan,
            divergences: vec![],
            note: v.note.clone(),
        };
        let sig = mv
            .plan
            .programs
            .iter()
            .map(|p| format!("prog:{}", simcore::hex64(p.key())))
            .collect::<Vec<_>>()
            .join("+");
        let path = write_replay(&replays, seed, &mv, &exe, &scratch, json!({"before": before, "after": after, "executions": m.executions}));
        let known_hit = known
            .iter()
            .find(|k| k.property_id == PROPERTY && k.status == "open" && k.signature == sig);
        if let Some(k) = known_hit {
            println!("KNOWN-FINDING: property={PROPERTY} {}", k.what);
        } else {
            reported += 1;
            println!("sessim: violation class: {}", v.class);
            println!("sessim: minimised {} -> {} in {} executions", before, after, m.executions);
            violation_lines.push(format!("VIOLATION property={PROPERTY} replay={}", path.display()));
        }
    }
    if let Some(b) = &bridge_report {
        for v in &b.violations {
            reported += 1;
            violation_lines.push(format!("VIOLATION property={PROPERTY} replay={}", v["replay"].as_str().unwrap_or("")));
        }
    }

    // evidence
    let wall = simcore::real_now_s() - t0;
    let ev = build_evidence(tier, seed, &w, result.as_ref(), bridge_report.as_ref(), reference_wall, wall, reported, refs.len());
    if let Err(e) = ev.write(&evidence_path) {
        eprintln!("HARNESS-ERROR: evidence: {e}");
        return 2;
    }
    println!("sessim: evidence -> {}", evidence_path.display());
    for l in &violation_lines {
        println!("{l}");
    }
    if reported > 0 {
        1
    } else {
        println!("sessim: {PROPERTY} held on everything explored");
        0
    }
}

#[allow(clippy::too_many_arguments)]
fn build_evidence(
    tier: &str,
    seed: u64,
    w: &Workload,
    r: Option<&driver::SearchResult>,
    bridge: Option<&bridge::BridgeReport>,
    reference_wall: f64,
    wall: f64,
    violations: u64,
    n_refs: usize,
) -> simcore::evidence::Evidence {
    let empty = driver::Stats::new();
    let (s, samples, det_checked, search_wall) = match r {
        Some(r) => (&r.stats, r.samples.clone(), r.det_checked, r.wall_s),
        None => (&empty, vec![], 0, 0.0),
    };
    let samples = if samples.is_empty() {
        vec![json!("no run executed: a violation was found at the reference stage")]
    } else {
        samples
    };
    let completed_pct = if s.jobs > 0 { 100.0 * s.jobs_completed as f64 / s.jobs as f64 } else { 0.0 };
    let coverage = json!({
        "evaluations": s.runs.max(1),
        "distinct_nontrivial": s.histories_nontrivial.len().max(if s.runs == 0 { 2 } else { 0 }),
        "rule": "One evaluation = one seeded run = one plan (jobs with thread placement, every scheduler decision, every fault with its argument) executed in 1..3 fresh OS processes under the parked-thread scheduler with getrandom/clock_gettime/getpid/env/cwd owned by the simulator. distinct_nontrivial = number of distinct run histories (64-bit hash of the complete child event logs, set merged across workers) that fired at least one fault (worker_switch, panic_injection, env_*, cwd_change, clock_jump, placement_new_thread, process_restart, env_initial) AND contained at least two jobs whose programs share an identifier (two different programs with a common fn/mod/trait/mock name, or one program invoked twice).",
        "samples": samples,
        "programs": w.programs.len(),
        "programs_harvested_from_working_tree": w.n_harvested,
        "env_names_found_as_literals_in_macro_sources": w.src_env_names,
        "candidate_env_values_found_as_literals_in_macro_sources": w.src_env_values.len(),
        "programs_exercised_in_runs": s.programs_exercised.len(),
        "reference_solo_sessions": n_refs * 2,
        "reference_wall_s": (reference_wall * 100.0).round() / 100.0,
        "runs": s.runs,
        "processes": s.epochs,
        "invocations": s.jobs,
        "invocations_completed": s.jobs_completed,
        "invocations_crashed_by_injected_panic": s.jobs_crashed,
        "invocations_rejected_by_macro": s.jobs_rejected,
        "invocations_where_macro_itself_panicked": s.jobs_panicked_own,
        "completed_percent": (completed_pct * 10.0).round() / 10.0,
        "runs_per_hour": if search_wall > 0.0 { (s.runs as f64 / search_wall * 3600.0).round() } else { 0.0 },
        "seeds_per_hour_note": "one VERIF_SEED per check; every run derives its own PRNG stream from (VERIF_SEED, run index)",
        "simulated_time": {
            "scheduler_steps": s.steps,
            "simulated_wall_clock_span_s": if s.sim_clock_max >= s.sim_clock_min { s.sim_clock_max - s.sim_clock_min } else { 0 },
            "note": "the SUT has no timers; the simulated clock only exists to be jumped. clock_reads_by_sut counts reads of the seamed clock from inside the child (0 on the unchanged tree: the macro never reads it)",
        },
        "faults_fired": s.faults_fired,
        "faults_drawn_but_not_applicable": s.faults_not_fired,
        "mid_expansion_switches": s.mid_expansion_switches,
        "runs_with_two_expansions_interleaved": s.runs_with_mid_switch,
        "max_expansions_in_flight": s.max_in_flight,
        "probes": {
            "points_hit": s.points,
            "hashed_path_reached_taken_ge2": s.hashed_path_taken_ge2,
            "distinct_hash_key_probes": s.hash_probes.len(),
            "threads_spawned": s.threads_spawned,
            "getrandom_calls_served_by_seam": s.getrandom_calls,
            "clock_reads_by_sut": s.clock_reads_by_sut,
            "getpid_calls_by_sut": s.getpid_calls_by_sut,
            "cpu_count_queries_by_sut (sched_getaffinity seam)": s.affinity_calls_by_sut,
            "epochs_whose_stderr_was_a_terminal (pty; observed with isatty in the epoch process)": s.epochs_stderr_tty,
            "plan_executions_repeated_after_a_watchdog_kill": exec::WATCHDOG_RETRIES.load(std::sync::atomic::Ordering::SeqCst),
            "files_left_on_simulated_disk": s.fs_leftovers,
            "epochs_with_private_tmp_mounts (mount namespace; /tmp, /var/tmp, /dev/shm inside the run's simulated disk)": s.epochs_private_fs,
            "epochs_without_private_mounts (namespaces not permitted: TMPDIR/HOME redirection only)": s.epochs_shared_fs,
        },
        "distinct": {
            "run_histories": s.histories_all.len(),
            "run_histories_nontrivial": s.histories_nontrivial.len(),
            "interleaving_signatures": s.interleavings.len(),
            "ordered_predecessor_program_pairs_per_thread": s.pred_pairs.len(),
        },
        "determinism_second_order_oracle": {
            "plans_executed_twice": det_checked,
            "log_differences": 0,
        },
        "real_bridge": bridge.map(|b| b.summary.clone()).unwrap_or(json!(null)),
        "real_vs_stub": {
            "real": ["entrait_macros expansion code from /repo's working tree (shadow manifest, --cfg entrait_verif): input.rs, opt.rs, analyze_generics.rs, generics.rs, signature/*, trait_codegen.rs, fn_delegation_codegen.rs, attributes.rs, sub_attributes.rs, entrait_fn/*, entrait_trait/*, entrait_impl/*, idents.rs, token_util.rs, set_fallbacks", "syn, quote, proc-macro2 (fallback mode)", "std thread-locals and RandomState on real OS threads", "real-bridge tier: rustc + the shipped proc-macro (invoke and the four wrappers)"],
            "mirrored": ["lib.rs::invoke and the four #[proc_macro_attribute] wrappers -> verif::expand (syn::parse2 instead of parse_macro_input!)"],
            "stub": ["rustc's proc-macro bridge, driver and thread pool -> session simulator", "OS getrandom / clock_gettime / getpid / sched_getaffinity (CPU count) / environment / command line / cwd / stderr (pipe or pseudo-terminal) -> simulator-owned", "file system: /tmp, /var/tmp, /dev/shm and the home directory are private bind mounts onto the run's simulated disk (durable across the epochs of a run)", "external programs: stand-in tools behind a simulated PATH", "build flavour: one reference session runs the simulator built with debug assertions and overflow checks"],
        },
        "exhaustive": false,
    });
    simcore::evidence::Evidence {
        property_id: PROPERTY.into(),
        tier: tier.into(),
        seed,
        level: "exploration".into(),
        coverage,
        assumptions: vec![
            "token equality is compared as proc_macro2::TokenStream::to_string(); spans are ignored".into(),
            "in-process runs use proc-macro2's fallback (non-compiler) implementation; the bridge is covered only by the real-bridge sample".into(),
            "verif::expand mirrors lib.rs::invoke; drift is detected (not prevented) by the real-bridge tier".into(),
            "heap addresses, and file I/O at absolute paths other than /tmp, /var/tmp, /dev/shm and the home directory (those four are private bind mounts onto the run's simulated disk, as are cwd/HOME/TMPDIR), are not owned by the simulator; a dependence on them is detected as divergence but its replay is not guaranteed exact".into(),
            "one of the two reference sessions of every program runs the simulator built with debug assertions and overflow checks (build flavour as part of the environment)".into(),
            "a clean batch is evidence, not proof".into(),
        ],
        wall_s: wall,
        violations,
    }
}

fn replay(args: &[String]) -> i32 {
    let Some(file) = args.get(2) else {
        eprintln!("usage: sessim replay <file>");
        return 2;
    };
    let text = match std::fs::read_to_string(file) {
        Ok(t) => t,
        Err(e) => {
            eprintln!("HARNESS-ERROR: {file}: {e}");
            return 2;
        }
    };
    let doc: Value = match serde_json::from_str(&text) {
        Ok(v) => v,
        Err(e) => {
            eprintln!("HARNESS-ERROR: {file}: {e}");
            return 2;
        }
    };
    if doc["kind"] == "real-bridge" {
        let verif = PathBuf::from(arg_value(args, "--verif").unwrap_or_else(|| "/verif".into()));
        return bridge::replay(&doc, file, &verif);
    }
    let plan = Plan::from_json(&doc["plan"]);
    let exe = std::env::current_exe().expect("current_exe");
    let verif = PathBuf::from(arg_value(args, "--verif").unwrap_or_else(|| "/verif".into()));
    let scratch = Scratch::new(&verif.join("scratch").join("sessim"), 900);
    let refs = References::new();
    let mut reproduced = false;
    for p in &plan.programs {
        match refs.compute(&exe, &scratch, p, true) {
            Ok(driver::RefResult::Disagree(_, a, _, b)) => {
                reproduced = true;
                println!("replay: two pristine solo sessions disagree for #[{}({})] {}", p.variant, p.attr, p.item);
                println!("  solo A: {} {}", a.kind, a.text.clone().unwrap_or_default());
                println!("  solo B: {} {}", b.kind, b.text.clone().unwrap_or_default());
            }
            Ok(_) => {}
            Err(e) => {
                eprintln!("HARNESS-ERROR: {}", e.0);
                return 2;
            }
        }
    }
    if reproduced {
        // reference-stage violation: there is no single reference output to compare a run with
        println!("VIOLATION property={PROPERTY} replay={file}");
        return 1;
    }
    let log = match exec_plan(&exe, &plan, &scratch, true) {
        Ok(l) => l,
        Err(e) => {
            eprintln!("HARNESS-ERROR: {}", e.0);
            return 2;
        }
    };
    let lookup = |p: &Program| refs.get(p.key()).ok_or_else(|| exec::HarnessError("no reference".into()));
    match driver::check_run(&plan, &log, &lookup) {
        Ok(divs) => {
            for d in &divs {
                reproduced = true;
                let p = &plan.programs[plan.epochs[d.epoch].jobs[d.job].prog];
                println!("replay: epoch {} job {} #[{}({})] {}", d.epoch, d.job, p.variant, p.attr, p.item);
                println!("  expected ({}): {}", d.expected.kind, d.expected.text.clone().unwrap_or_default());
                println!("  actual   ({}): {}", d.actual.kind, d.actual.text.clone().unwrap_or_default());
            }
        }
        Err(e) => {
            eprintln!("HARNESS-ERROR: {}", e.0);
            return 2;
        }
    }
    if reproduced {
        println!("VIOLATION property={PROPERTY} replay={file}");
        1
    } else {
        println!("replay: no divergence (not reproduced on this tree)");
        0
    }
}
