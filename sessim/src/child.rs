//! One epoch of a plan = one simulated compiler process. Real OS threads (so
//! that std thread-locals and per-thread hash keys are real), but parked on
//! channels and released exactly one at a time by the scheduler below; who
//! runs is decided by the plan, never by the kernel.

use crate::plan::{Decision, Epoch, Program};
use crate::seams;
use serde_json::Value;
use std::cell::RefCell;
use std::collections::{BTreeMap, VecDeque};
use std::io::{Read, Write};
use std::panic::{catch_unwind, AssertUnwindSafe};
use std::sync::mpsc::{channel, Receiver, Sender};
use std::sync::Arc;

enum Cmd {
    Run(usize),
    Resume,
    InjectPanic,
    Exit,
}

enum Ev {
    Spawned { hash_probe: u64 },
    Point { id: &'static str, detail: usize },
    Done { job: usize, outcome: Outcome },
}

pub struct Outcome {
    pub kind: &'static str, // "ok" | "rejected" | "crashed" | "panicked" | "lexerr"
    pub debug: bool,
    pub text: String,
}

thread_local! {
    static CTX: RefCell<Option<(Sender<Ev>, Receiver<Cmd>)>> = const { RefCell::new(None) };
}

const INJECTED: &str = "sessim: injected panic";

fn hook(id: &'static str, detail: usize) {
    CTX.with(|c| {
        let guard = c.borrow();
        if let Some((tx, rx)) = guard.as_ref() {
            let _ = tx.send(Ev::Point { id, detail });
            match rx.recv() {
                Ok(Cmd::Resume) => {}
                Ok(Cmd::InjectPanic) => {
                    drop(guard);
                    panic!("{}", INJECTED);
                }
                _ => {
                    // scheduler went away: harness error, not a macro fault
                    std::process::exit(3);
                }
            }
        }
    });
}

fn hash_probe() -> u64 {
    // iteration order of a std HashSet: a function of this thread's SipHash
    // keys, i.e. of what the getrandom seam served
    let set: std::collections::HashSet<&'static str> =
        ["a", "b", "c", "d", "e", "f", "g", "h"].into_iter().collect();
    let mut h = simcore::fnv1a64(b"probe");
    for s in &set {
        h = simcore::fnv_extend(h, s.as_bytes());
    }
    h
}

fn expand_job(p: &Program) -> Outcome {
    let attr: proc_macro2::TokenStream = match p.attr.parse() {
        Ok(t) => t,
        Err(e) => {
            return Outcome {
                kind: "lexerr",
                debug: false,
                text: format!("attr: {e}"),
            }
        }
    };
    let item: proc_macro2::TokenStream = match p.item.parse() {
        Ok(t) => t,
        Err(e) => {
            return Outcome {
                kind: "lexerr",
                debug: false,
                text: format!("item: {e}"),
            }
        }
    };
    let exp = entrait_macros::verif::expand(&p.variant, attr, item);
    Outcome {
        kind: if exp.rejected { "rejected" } else { "ok" },
        debug: exp.debug,
        text: exp.output.to_string(),
    }
}

fn worker_main(tx: Sender<Ev>, rx: Receiver<Cmd>, programs: Arc<Vec<Program>>, jobs: Arc<Vec<usize>>) {
    CTX.with(|c| *c.borrow_mut() = Some((tx.clone(), rx)));
    let _ = tx.send(Ev::Spawned {
        hash_probe: hash_probe(),
    });
    loop {
        let cmd = CTX.with(|c| c.borrow().as_ref().unwrap().1.recv());
        match cmd {
            Ok(Cmd::Run(j)) => {
                let p = &programs[jobs[j]];
                let r = catch_unwind(AssertUnwindSafe(|| expand_job(p)));
                let outcome = match r {
                    Ok(o) => o,
                    Err(payload) => {
                        let msg = if let Some(s) = payload.downcast_ref::<&str>() {
                            s.to_string()
                        } else if let Some(s) = payload.downcast_ref::<String>() {
                            s.clone()
                        } else {
                            "<non-string panic>".to_string()
                        };
                        if msg == INJECTED {
                            Outcome {
                                kind: "crashed",
                                debug: false,
                                text: String::new(),
                            }
                        } else {
                            // a panic of the macro's own: an outcome like any
                            // other, compared against the reference
                            Outcome {
                                kind: "panicked",
                                debug: false,
                                text: msg,
                            }
                        }
                    }
                };
                let _ = tx.send(Ev::Done { job: j, outcome });
            }
            _ => break,
        }
    }
}

struct Worker {
    queue: VecDeque<usize>,
    parked: Option<usize>,
    running: Option<usize>,
    tx: Option<Sender<Cmd>>,
    handle: Option<std::thread::JoinHandle<()>>,
}

fn esc(s: &str) -> String {
    serde_json::to_string(s).unwrap()
}

/// Reads {"programs","epoch","scratch","full"} on stdin, executes the epoch,
/// writes the event log on stdout. Exit code 0 unless the harness itself
/// failed (then 3).
pub fn run_child() -> i32 {
    let mut input = String::new();
    if std::io::stdin().read_to_string(&mut input).is_err() {
        return 3;
    }
    let v: Value = match serde_json::from_str(&input) {
        Ok(v) => v,
        Err(_) => return 3,
    };
    let epoch = Epoch::from_json(&v["epoch"]);
    let programs: Vec<Program> = v["programs"]
        .as_array()
        .map(|a| a.iter().map(Program::from_json).collect())
        .unwrap_or_default();
    let scratch = v["scratch"].as_str().unwrap_or(".").to_string();
    let full = v["full"].as_bool().unwrap_or(false);

    // the simulated machine: environment, cwd, hash keys, clock, pid
    let names: Vec<std::ffi::OsString> = std::env::vars_os().map(|(k, _)| k).collect();
    for k in names {
        std::env::remove_var(k);
    }
    // the simulated machine's disk: temp and home live inside the scratch dir
    // unless the plan says otherwise
    let _ = std::fs::create_dir_all(format!("{scratch}/tmp"));
    let private_fs = isolate_disk(&scratch);
    std::env::set_var("TMPDIR", format!("{scratch}/tmp"));
    std::env::set_var("HOME", format!("{scratch}/home"));
    install_tools(&scratch);
    for (k, val) in &epoch.env {
        std::env::set_var(k, val.replace("$SCRATCH", &scratch));
    }
    if std::env::set_current_dir(&scratch).is_err() {
        return 3;
    }
    seams::activate(epoch.hash_seed, epoch.clock_s, epoch.pid);
    seams::set_cpus(epoch.cpus);
    std::panic::set_hook(Box::new(|_| {}));
    entrait_macros::verif::install_hook(hook);

    let mut log: Vec<String> = Vec::with_capacity(256);
    let stderr_tty = unsafe { libc::isatty(2) } == 1;
    log.push(format!("{{\"ev\":\"disk\",\"private_mounts\":{private_fs},\"stderr_tty\":{stderr_tty}}}"));
    let programs = Arc::new(programs);
    let job_progs: Arc<Vec<usize>> = Arc::new(epoch.jobs.iter().map(|j| j.prog).collect());

    let mut workers: BTreeMap<u32, Worker> = BTreeMap::new();
    for (i, j) in epoch.jobs.iter().enumerate() {
        workers
            .entry(j.thread)
            .or_insert_with(|| Worker {
                queue: VecDeque::new(),
                parked: None,
                running: None,
                tx: None,
                handle: None,
            })
            .queue
            .push_back(i);
    }
    let (ev_tx, ev_rx) = channel::<Ev>();
    let mut decisions = epoch.decisions.iter();
    let mut consumed = 0usize;
    let mut steps = 0usize;

    let runnable = |w: &Worker| w.parked.is_some() || !w.queue.is_empty();
    let others = |workers: &BTreeMap<u32, Worker>, cur: u32| -> Vec<u32> {
        workers
            .iter()
            .filter(|(t, w)| **t != cur && (w.parked.is_some() || !w.queue.is_empty()))
            .map(|(t, _)| *t)
            .collect()
    };

    let mut current: Option<u32> = epoch.jobs.first().map(|j| j.thread);

    'sched: while let Some(cur) = current {
        // ---- dispatch `cur` ----
        {
            let w = workers.get_mut(&cur).unwrap();
            if let Some(j) = w.parked.take() {
                w.running = Some(j);
                log.push(format!("{{\"ev\":\"resume\",\"thread\":{cur},\"job\":{j}}}"));
                let _ = w.tx.as_ref().unwrap().send(Cmd::Resume);
            } else if let Some(j) = w.queue.pop_front() {
                if w.tx.is_none() {
                    let (tx, rx) = channel::<Cmd>();
                    let etx = ev_tx.clone();
                    let p = programs.clone();
                    let jp = job_progs.clone();
                    w.handle = Some(std::thread::spawn(move || worker_main(etx, rx, p, jp)));
                    w.tx = Some(tx);
                    match ev_rx.recv() {
                        Ok(Ev::Spawned { hash_probe }) => {
                            log.push(format!(
                                "{{\"ev\":\"spawn\",\"thread\":{cur},\"hash_probe\":\"{}\"}}",
                                simcore::hex64(hash_probe)
                            ));
                        }
                        _ => return 3,
                    }
                }
                w.running = Some(j);
                log.push(format!(
                    "{{\"ev\":\"start\",\"thread\":{cur},\"job\":{j},\"prog\":{}}}",
                    job_progs[j]
                ));
                let _ = w.tx.as_ref().unwrap().send(Cmd::Run(j));
            } else {
                // nothing to do on this thread: lowest runnable, or finished
                current = workers.iter().find(|(_, w)| runnable(w)).map(|(t, _)| *t);
                continue 'sched;
            }
        }
        // ---- events until `cur` parks or finishes its job ----
        loop {
            steps += 1;
            let ev = match ev_rx.recv() {
                Ok(ev) => ev,
                Err(_) => return 3,
            };
            match ev {
                Ev::Spawned { .. } => return 3,
                Ev::Point { id, detail } => {
                    let j = workers[&cur].running.unwrap();
                    log.push(format!(
                        "{{\"ev\":\"point\",\"thread\":{cur},\"job\":{j},\"id\":{},\"detail\":{detail}}}",
                        esc(id)
                    ));
                    // environment faults are applied and the next decision is
                    // consumed, until a control decision is reached
                    loop {
                        let d = decisions.next().cloned().unwrap_or(Decision::Cont);
                        consumed += 1;
                        match d {
                            Decision::Cont => {
                                let _ = workers[&cur].tx.as_ref().unwrap().send(Cmd::Resume);
                                break;
                            }
                            Decision::Panic => {
                                log.push("{\"ev\":\"fault\",\"kind\":\"panic_injection\",\"fired\":true}".to_string());
                                let _ = workers[&cur].tx.as_ref().unwrap().send(Cmd::InjectPanic);
                                break;
                            }
                            Decision::Switch(n) => {
                                let o = others(&workers, cur);
                                if o.is_empty() {
                                    log.push("{\"ev\":\"fault\",\"kind\":\"worker_switch\",\"fired\":false}".to_string());
                                    let _ = workers[&cur].tx.as_ref().unwrap().send(Cmd::Resume);
                                    break;
                                }
                                let to = o[n as usize % o.len()];
                                log.push(format!("{{\"ev\":\"fault\",\"kind\":\"worker_switch\",\"fired\":true,\"from\":{cur},\"to\":{to},\"mid_expansion\":true}}"));
                                let w = workers.get_mut(&cur).unwrap();
                                w.parked = w.running.take();
                                current = Some(to);
                                continue 'sched;
                            }
                            other => apply_env_fault(&other, &scratch, &mut log),
                        }
                    }
                }
                Ev::Done { job, outcome } => {
                    workers.get_mut(&cur).unwrap().running = None;
                    let h = {
                        let mut h = simcore::fnv1a64(outcome.kind.as_bytes());
                        h = simcore::fnv_extend(h, if outcome.debug { b"|D|" } else { b"|-|" });
                        simcore::fnv_extend(h, outcome.text.as_bytes())
                    };
                    let mut line = format!(
                        "{{\"ev\":\"done\",\"thread\":{cur},\"job\":{job},\"prog\":{},\"kind\":\"{}\",\"debug\":{},\"hash\":\"{}\"",
                        job_progs[job],
                        outcome.kind,
                        outcome.debug,
                        simcore::hex64(h)
                    );
                    if full {
                        line.push_str(&format!(",\"text\":{}", esc(&outcome.text)));
                    }
                    line.push('}');
                    log.push(line);
                    // who goes next
                    loop {
                        let d = decisions.next().cloned().unwrap_or(Decision::Cont);
                        consumed += 1;
                        match d {
                            Decision::Cont | Decision::Panic => break,
                            Decision::Switch(n) => {
                                let o = others(&workers, cur);
                                if o.is_empty() {
                                    log.push("{\"ev\":\"fault\",\"kind\":\"worker_switch\",\"fired\":false}".to_string());
                                } else {
                                    let to = o[n as usize % o.len()];
                                    log.push(format!("{{\"ev\":\"fault\",\"kind\":\"worker_switch\",\"fired\":true,\"from\":{cur},\"to\":{to},\"mid_expansion\":false}}"));
                                    current = Some(to);
                                    continue 'sched;
                                }
                                break;
                            }
                            other => apply_env_fault(&other, &scratch, &mut log),
                        }
                    }
                    // stay on this thread if it has work, else lowest runnable
                    if !runnable(&workers[&cur]) {
                        current = workers.iter().find(|(_, w)| runnable(w)).map(|(t, _)| *t);
                    }
                    continue 'sched;
                }
            }
        }
    }

    for w in workers.values_mut() {
        if let Some(tx) = w.tx.take() {
            let _ = tx.send(Cmd::Exit);
        }
    }
    for w in workers.values_mut() {
        if let Some(h) = w.handle.take() {
            let _ = h.join();
        }
    }
    use std::sync::atomic::Ordering::SeqCst;
    log.push(format!(
        "{{\"ev\":\"end\",\"steps\":{steps},\"decisions_consumed\":{consumed},\"threads\":{},\"getrandom_calls\":{},\"clock_calls\":{},\"getpid_calls\":{},\"affinity_calls\":{}}}",
        workers.len(),
        seams::GETRANDOM_CALLS.load(SeqCst),
        seams::CLOCK_CALLS.load(SeqCst),
        seams::GETPID_CALLS.load(SeqCst),
        seams::AFFINITY_CALLS.load(SeqCst)
    ));
    let mut out = log.join("\n");
    out.push('\n');
    let stdout = std::io::stdout();
    let mut lock = stdout.lock();
    if lock.write_all(out.as_bytes()).is_err() || lock.flush().is_err() {
        return 3;
    }
    0
}

/// Stand-in external tools on the simulated disk (`$SCRATCH/bin`): a macro that pipes its output
/// through `rustfmt` (or asks `rustc`, `cargo`, `git` something) finds these when the simulated
/// `PATH` leads here. Each copies stdin to stdout and appends a marker item, so that USING a
/// tool's output changes the expansion.
fn install_tools(scratch: &str) {
    use std::os::unix::fs::PermissionsExt;
    let dir = format!("{scratch}/bin");
    if std::path::Path::new(&dir).join("rustfmt").exists() {
        return;
    }
    let _ = std::fs::create_dir_all(&dir);
    for tool in ["rustfmt", "rustc", "cargo", "git", "clang-format", "prettyplease", "sh-tool"] {
        let path = format!("{dir}/{tool}");
        if std::fs::write(&path, "#!/bin/sh\ncat\necho ' const _SIMULATED_TOOL_OUTPUT : () = () ;'\n").is_ok() {
            let _ = std::fs::set_permissions(&path, std::fs::Permissions::from_mode(0o755));
        }
    }
}

/// The simulated machine's disk. TMPDIR and HOME already point into the run's scratch directory,
/// but an environment fault (or an absolute path) could lead a mutated macro to the REAL /tmp,
/// /var/tmp or /dev/shm, whose contents outlive the run: the epoch process therefore moves into a
/// private mount namespace in which those three are bind mounts of directories inside the scratch
/// directory (kept across the epochs of one run, emptied between runs). Best effort: returns
/// false where namespaces are not permitted (the log says so, nothing else changes).
fn isolate_disk(scratch: &str) -> bool {
    use std::ffi::CString;
    let c = |s: &str| CString::new(s).unwrap();
    unsafe {
        if libc::unshare(libc::CLONE_NEWNS) != 0 {
            return false;
        }
        if libc::mount(c("none").as_ptr(), c("/").as_ptr(), std::ptr::null(), libc::MS_REC | libc::MS_PRIVATE, std::ptr::null()) != 0 {
            return false;
        }
        let mut ok = true;
        // the real home directory too (what `getpwuid` says, used when HOME is unset)
        let mut home = String::new();
        let pw = libc::getpwuid(libc::getuid());
        if !pw.is_null() && !(*pw).pw_dir.is_null() {
            home = std::ffi::CStr::from_ptr((*pw).pw_dir).to_string_lossy().into_owned();
        }
        let exe = std::env::current_exe().map(|p| p.display().to_string()).unwrap_or_default();
        let mut targets = vec![("tmp", "/tmp".to_string()), ("vartmp", "/var/tmp".to_string()), ("shm", "/dev/shm".to_string())];
        if home.len() > 1 && !scratch.starts_with(&home) && !exe.starts_with(&home) {
            targets.push(("home", home));
        }
        for (sub, dst) in targets {
            let dst = dst.as_str();
            let src = format!("{scratch}/{sub}");
            let _ = std::fs::create_dir_all(&src);
            if !std::path::Path::new(dst).is_dir() {
                continue;
            }
            if libc::mount(c(&src).as_ptr(), c(dst).as_ptr(), std::ptr::null(), libc::MS_BIND, std::ptr::null()) != 0 {
                ok = false;
            }
        }
        ok
    }
}

fn apply_env_fault(d: &Decision, scratch: &str, log: &mut Vec<String>) {
    // safe: every simulated thread is parked in a channel recv right now
    match d {
        Decision::EnvSet(k, v) => {
            std::env::set_var(k, v.replace("$SCRATCH", scratch));
            log.push(format!(
                "{{\"ev\":\"fault\",\"kind\":\"env_set\",\"fired\":true,\"name\":{}}}",
                esc(k)
            ));
        }
        Decision::EnvUnset(k) => {
            let was = std::env::var_os(k).is_some();
            std::env::remove_var(k);
            log.push(format!(
                "{{\"ev\":\"fault\",\"kind\":\"env_unset\",\"fired\":{was},\"name\":{}}}",
                esc(k)
            ));
        }
        Decision::Cwd(dir) => {
            let path = if dir.is_empty() {
                scratch.to_string()
            } else {
                format!("{scratch}/{dir}")
            };
            let _ = std::fs::create_dir_all(&path);
            let ok = std::env::set_current_dir(&path).is_ok();
            log.push(format!(
                "{{\"ev\":\"fault\",\"kind\":\"cwd_change\",\"fired\":{ok},\"dir\":{}}}",
                esc(dir)
            ));
        }
        Decision::Clock(t) => {
            seams::set_clock(*t);
            log.push(format!(
                "{{\"ev\":\"fault\",\"kind\":\"clock_jump\",\"fired\":true,\"to\":{t}}}"
            ));
        }
        _ => {}
    }
}
