//! Plan minimisation: shrink while *some job's output differs from its
//! reference* persists. Every candidate is executed in fresh processes.

use crate::driver::{check_run, RefResult, References};
use crate::exec::{exec_plan, HarnessError, JobOutcome, Scratch};
use crate::plan::{Decision, Plan, Program};
use simcore::ddmin::ddmin;
use std::path::Path;

pub struct Minimiser<'a> {
    pub exe: &'a Path,
    pub scratch: &'a Scratch,
    pub refs: &'a References,
    pub executions: u64,
    pub budget: u64,
}

impl Minimiser<'_> {
    /// true when the plan still shows a divergence (or its references
    /// already disagree)
    pub fn fails(&mut self, plan: &Plan) -> bool {
        if self.executions >= self.budget {
            return false;
        }
        if plan.epochs.is_empty() || plan.epochs.iter().all(|e| e.jobs.is_empty()) {
            return false;
        }
        self.executions += 1;
        let exe = self.exe;
        let scratch = self.scratch;
        let refs = self.refs;
        // references first (they use the same scratch slot as the run)
        for p in &plan.programs {
            match refs.compute(exe, scratch, p, false) {
                Ok(RefResult::Disagree(..)) => return true,
                Ok(_) => {}
                Err(_) => return false,
            }
        }
        let lookup = |p: &Program| -> Result<JobOutcome, HarnessError> {
            refs.get(p.key()).ok_or_else(|| HarnessError("no reference".into()))
        };
        let Ok(log) = exec_plan(exe, plan, scratch, false) else {
            return false;
        };
        match check_run(plan, &log, &lookup) {
            Ok(d) => !d.is_empty(),
            Err(_) => false,
        }
    }

    pub fn minimise(&mut self, plan: Plan) -> Plan {
        let mut best = plan;
        // 0. environment and clock faults are positional (they fire at the n-th scheduling
        // event), which makes dropping jobs non-monotonic. First try to turn them into initial
        // conditions of the epoch: every EnvSet becomes an initial env entry, the last clock
        // jump becomes the epoch's clock, and the decisions themselves become `Cont`.
        {
            let mut p = best.clone();
            for e in &mut p.epochs {
                for d in e.decisions.iter_mut() {
                    match d.clone() {
                        Decision::EnvSet(k, v) => {
                            e.env.retain(|(k2, _)| *k2 != k);
                            e.env.push((k, v));
                            *d = Decision::Cont;
                        }
                        Decision::EnvUnset(_) => *d = Decision::Cont,
                        Decision::Clock(t) => {
                            e.clock_s = t;
                            *d = Decision::Cont;
                        }
                        Decision::Cwd(_) => *d = Decision::Cont,
                        _ => {}
                    }
                }
            }
            if p != best && self.fails(&p) {
                best = p;
            }
            // and no extra command-line arguments at all
            let mut p = best.clone();
            for e in &mut p.epochs {
                e.argv.clear();
            }
            if p != best && self.fails(&p) {
                best = p;
            }
            // and a single CPU
            let mut p = best.clone();
            for e in &mut p.epochs {
                e.cpus = 1;
                e.tty = false;
            }
            if p != best && self.fails(&p) {
                best = p;
            }
        }
        // 1. epochs
        if best.epochs.len() > 1 {
            let epochs = best.epochs.clone();
            let programs = best.programs.clone();
            let kept = ddmin(epochs, &mut |cand| {
                self.fails(&Plan {
                    programs: programs.clone(),
                    epochs: cand.to_vec(),
                })
            });
            best.epochs = kept;
        }
        // 2. jobs per epoch
        for ei in 0..best.epochs.len() {
            let jobs = best.epochs[ei].jobs.clone();
            let base = best.clone();
            let kept = ddmin(jobs, &mut |cand| {
                let mut p = base.clone();
                p.epochs[ei].jobs = cand.to_vec();
                self.fails(&p)
            });
            best.epochs[ei].jobs = kept;
        }
        best.epochs.retain(|e| !e.jobs.is_empty());
        // 3. decisions: none at all, else ddmin over the non-Cont ones
        for ei in 0..best.epochs.len() {
            let mut p = best.clone();
            p.epochs[ei].decisions.clear();
            if self.fails(&p) {
                best = p;
                continue;
            }
            // replace single faults by Cont (keeps positions stable)
            let idxs: Vec<usize> = best.epochs[ei]
                .decisions
                .iter()
                .enumerate()
                .filter(|(_, d)| **d != Decision::Cont)
                .map(|(i, _)| i)
                .collect();
            let base = best.clone();
            let kept = ddmin(idxs, &mut |cand| {
                let mut p = base.clone();
                for (i, d) in p.epochs[ei].decisions.iter_mut().enumerate() {
                    if *d != Decision::Cont && !cand.contains(&i) {
                        *d = Decision::Cont;
                    }
                }
                self.fails(&p)
            });
            for (i, d) in best.epochs[ei].decisions.iter_mut().enumerate() {
                if *d != Decision::Cont && !kept.contains(&i) {
                    *d = Decision::Cont;
                }
            }
            // trim trailing Cont
            while best.epochs[ei].decisions.last() == Some(&Decision::Cont) {
                best.epochs[ei].decisions.pop();
            }
        }
        // 4. one thread
        {
            let mut p = best.clone();
            for e in &mut p.epochs {
                for j in &mut e.jobs {
                    j.thread = 0;
                }
            }
            if p != best && self.fails(&p) {
                best = p;
            }
        }
        // 5. environment
        for ei in 0..best.epochs.len() {
            if best.epochs[ei].env.is_empty() {
                continue;
            }
            let env = best.epochs[ei].env.clone();
            let base = best.clone();
            let mut p = base.clone();
            p.epochs[ei].env.clear();
            if self.fails(&p) {
                best = p;
                continue;
            }
            let kept = ddmin(env, &mut |cand| {
                let mut p = base.clone();
                p.epochs[ei].env = cand.to_vec();
                self.fails(&p)
            });
            best.epochs[ei].env = kept;
        }
        // 6. simple machine parameters
        for ei in 0..best.epochs.len() {
            let mut p = best.clone();
            p.epochs[ei].hash_seed = 1;
            p.epochs[ei].clock_s = 0;
            p.epochs[ei].pid = 1;
            if p != best && self.fails(&p) {
                best = p;
            }
        }
        best.compact();
        // 7. program text: token-tree ddmin on each item
        for pi in 0..best.programs.len() {
            let item = best.programs[pi].item.clone();
            if let Some(shrunk) = self.shrink_item(&best, pi, &item) {
                best.programs[pi].item = shrunk;
            }
        }
        best
    }

    fn shrink_item(&mut self, plan: &Plan, pi: usize, item: &str) -> Option<String> {
        let ts: proc_macro2::TokenStream = item.parse().ok()?;
        let trees: Vec<proc_macro2::TokenTree> = ts.into_iter().collect();
        // only shrink inside the last brace group (mod / trait / impl body or
        // fn body): remove inner token trees
        let (last, head) = trees.split_last()?;
        let proc_macro2::TokenTree::Group(g) = last else {
            return None;
        };
        if g.delimiter() != proc_macro2::Delimiter::Brace {
            return None;
        }
        let inner: Vec<proc_macro2::TokenTree> = g.stream().into_iter().collect();
        if inner.len() < 2 {
            return None;
        }
        let render = |inner: &[proc_macro2::TokenTree]| -> String {
            let mut out = proc_macro2::TokenStream::new();
            out.extend(head.iter().cloned());
            let body: proc_macro2::TokenStream = inner.iter().cloned().collect();
            out.extend(std::iter::once(proc_macro2::TokenTree::Group(
                proc_macro2::Group::new(proc_macro2::Delimiter::Brace, body),
            )));
            out.to_string()
        };
        let strs: Vec<usize> = (0..inner.len()).collect();
        let kept = ddmin(strs, &mut |cand| {
            let sel: Vec<proc_macro2::TokenTree> = cand.iter().map(|i| inner[*i].clone()).collect();
            let mut p = plan.clone();
            p.programs[pi].item = render(&sel);
            self.fails(&p)
        });
        if kept.len() == inner.len() {
            return None;
        }
        let sel: Vec<proc_macro2::TokenTree> = kept.iter().map(|i| inner[*i].clone()).collect();
        Some(render(&sel))
    }
}
