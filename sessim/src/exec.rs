//! Executing plans: one fresh OS process per epoch, with a wall-clock
//! watchdog. A timeout or a malformed child log is a harness error, never a
//! violation.

use crate::plan::{Plan, Program};
use serde_json::{json, Value};
use std::io::Write;
use std::path::{Path, PathBuf};
use std::process::{Command, Stdio};
use std::sync::Mutex;

#[derive(Debug)]
pub struct HarnessError(pub String);

static WATCH: Mutex<Vec<(u32, f64)>> = Mutex::new(Vec::new());
static WATCHDOG_STARTED: std::sync::Once = std::sync::Once::new();
pub const CHILD_TIMEOUT_S: f64 = 20.0;

fn start_watchdog() {
    WATCHDOG_STARTED.call_once(|| {
        std::thread::spawn(|| loop {
            std::thread::sleep(std::time::Duration::from_millis(100));
            let now = simcore::real_now_s();
            let list = WATCH.lock().unwrap();
            for (pid, deadline) in list.iter() {
                if now > *deadline {
                    unsafe {
                        libc::kill(*pid as i32, libc::SIGKILL);
                    }
                }
            }
        });
    });
}

/// The run's "disk": emptied before a run, kept across its epochs.
pub struct Scratch {
    pub dir: PathBuf,
}

impl Scratch {
    pub fn new(base: &Path, slot: usize) -> Scratch {
        let dir = base.join(format!("slot{slot}"));
        Scratch { dir }
    }
    pub fn reset(&self) -> Result<(), HarnessError> {
        let _ = std::fs::remove_dir_all(&self.dir);
        std::fs::create_dir_all(&self.dir)
            .map_err(|e| HarnessError(format!("scratch {}: {e}", self.dir.display())))
    }
    /// anything a (mutated) macro left on the simulated disk
    pub fn leftovers(&self) -> Vec<String> {
        let mut out = vec![];
        fn walk(p: &Path, out: &mut Vec<String>) {
            if let Ok(rd) = std::fs::read_dir(p) {
                for e in rd.flatten() {
                    let path = e.path();
                    if path.is_dir() {
                        walk(&path, out);
                    } else {
                        out.push(path.display().to_string());
                    }
                }
            }
        }
        walk(&self.dir, &mut out);
        // the simulator's own stand-in tools are not leftovers
        let tools = self.dir.join("bin").display().to_string();
        out.retain(|p| !p.starts_with(&tools));
        out.sort();
        out
    }
}

pub struct EpochLog {
    pub raw: String,
    pub events: Vec<Value>,
}

pub fn exec_epoch(
    exe: &Path,
    programs: &[Program],
    epoch: &crate::plan::Epoch,
    scratch: &Scratch,
    full: bool,
) -> Result<EpochLog, HarnessError> {
    start_watchdog();
    let input = json!({
        "programs": programs.iter().map(|p| p.to_json()).collect::<Vec<_>>(),
        "epoch": epoch.to_json(),
        "scratch": scratch.dir.display().to_string(),
        "full": full,
    })
    .to_string();
    // stderr: /dev/null, or (a seam of its own: `is_terminal()`) the slave side of a fresh pty
    let mut pty_master: Option<std::fs::File> = None;
    let stderr = if epoch.tty {
        use std::os::fd::FromRawFd;
        let (mut m, mut sl) = (0 as libc::c_int, 0 as libc::c_int);
        let ok = unsafe { libc::openpty(&mut m, &mut sl, std::ptr::null_mut(), std::ptr::null(), std::ptr::null()) } == 0;
        if ok {
            pty_master = Some(unsafe { std::fs::File::from_raw_fd(m) });
            Stdio::from(unsafe { std::fs::File::from_raw_fd(sl) })
        } else {
            Stdio::null()
        }
    } else {
        Stdio::null()
    };
    let mut child = Command::new(exe)
        .arg("child")
        .args(&epoch.argv)
        .stdin(Stdio::piped())
        .stdout(Stdio::piped())
        .stderr(stderr)
        .spawn()
        .map_err(|e| HarnessError(format!("spawn child: {e}")))?;
    let _keep_master_open_until_the_child_is_done = &pty_master;
    let pid = child.id();
    WATCH
        .lock()
        .unwrap()
        .push((pid, simcore::real_now_s() + CHILD_TIMEOUT_S));
    let write_result = child.stdin.take().unwrap().write_all(input.as_bytes());
    let out = child.wait_with_output();
    WATCH.lock().unwrap().retain(|(p, _)| *p != pid);
    write_result.map_err(|e| HarnessError(format!("child stdin: {e}")))?;
    let out = out.map_err(|e| HarnessError(format!("child wait: {e}")))?;
    if !out.status.success() {
        return Err(HarnessError(format!(
            "child exited with {:?} (watchdog timeout {CHILD_TIMEOUT_S}s, or harness failure)",
            out.status
        )));
    }
    let raw = String::from_utf8(out.stdout).map_err(|_| HarnessError("child log not utf8".into()))?;
    let mut events = vec![];
    for line in raw.lines() {
        let v: Value = serde_json::from_str(line)
            .map_err(|e| HarnessError(format!("child log line {line:?}: {e}")))?;
        events.push(v);
    }
    if events.last().map(|e| e["ev"] != "end").unwrap_or(true) {
        return Err(HarnessError("child log has no end record".into()));
    }
    Ok(EpochLog { raw, events })
}

pub struct RunLog {
    pub epochs: Vec<EpochLog>,
    pub leftovers: Vec<String>,
}

impl RunLog {
    pub fn raw(&self) -> String {
        let mut s = String::new();
        for (i, e) in self.epochs.iter().enumerate() {
            s.push_str(&format!("--- epoch {i}\n"));
            s.push_str(&e.raw);
        }
        s
    }
}

/// executions repeated because the watchdog killed an epoch process (see `exec_plan`)
pub static WATCHDOG_RETRIES: std::sync::atomic::AtomicU64 = std::sync::atomic::AtomicU64::new(0);

/// One execution of a plan from an empty simulated disk. The watchdog is the one place where real
/// time enters the harness: if the whole machine stalls for longer than the limit (a paused or
/// snapshotted VM, a frozen disk) it kills epoch processes that were doing nothing wrong. A plan is
/// a pure function of its text, so such an execution is simply repeated (twice at most, from a
/// fresh disk); an expansion that really never finishes hangs again each time and is reported as
/// before.
pub fn exec_plan(exe: &Path, plan: &Plan, scratch: &Scratch, full: bool) -> Result<RunLog, HarnessError> {
    let mut attempt = 0;
    loop {
        match exec_plan_once(exe, plan, scratch, full) {
            Err(e) if attempt < 2 && e.0.contains("watchdog timeout") => {
                attempt += 1;
                WATCHDOG_RETRIES.fetch_add(1, std::sync::atomic::Ordering::SeqCst);
            }
            r => return r,
        }
    }
}

fn exec_plan_once(exe: &Path, plan: &Plan, scratch: &Scratch, full: bool) -> Result<RunLog, HarnessError> {
    scratch.reset()?;
    let mut epochs = vec![];
    for e in &plan.epochs {
        epochs.push(exec_epoch(exe, &plan.programs, e, scratch, full)?);
    }
    let leftovers = scratch.leftovers();
    Ok(RunLog { epochs, leftovers })
}

/// What one job produced, as the oracle sees it.
#[derive(Clone, Debug, PartialEq)]
pub struct JobOutcome {
    pub kind: String,
    pub debug: bool,
    pub hash: String,
    pub text: Option<String>,
}

impl JobOutcome {
    pub fn same_output(&self, other: &JobOutcome) -> bool {
        self.kind == other.kind && self.debug == other.debug && self.hash == other.hash
    }
}

pub fn outcome_of(ev: &Value) -> JobOutcome {
    JobOutcome {
        kind: ev["kind"].as_str().unwrap_or("?").to_string(),
        debug: ev["debug"].as_bool().unwrap_or(false),
        hash: ev["hash"].as_str().unwrap_or("?").to_string(),
        text: ev["text"].as_str().map(|s| s.to_string()),
    }
}
