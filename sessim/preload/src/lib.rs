//! LD_PRELOAD seam for the real-bridge tier: inside a real rustc process (and
//! the proc-macro it loads) `getrandom` serves a byte stream seeded from
//! SESSIM_HASH_SEED, so std's per-thread SipHash keys are simulator-chosen.

use std::sync::atomic::{AtomicU64, Ordering};

static STATE: AtomicU64 = AtomicU64::new(0);
static INIT: AtomicU64 = AtomicU64::new(0);

fn splitmix64(state: &mut u64) -> u64 {
    *state = state.wrapping_add(0x9E37_79B9_7F4A_7C15);
    let mut z = *state;
    z = (z ^ (z >> 30)).wrapping_mul(0xBF58_476D_1CE4_E5B9);
    z = (z ^ (z >> 27)).wrapping_mul(0x94D0_49BB_1331_11EB);
    z ^ (z >> 31)
}

unsafe fn seed_from_env() -> Option<u64> {
    let p = libc::getenv(b"SESSIM_HASH_SEED\0".as_ptr() as *const libc::c_char);
    if p.is_null() {
        return None;
    }
    let mut v: u64 = 0;
    let mut q = p as *const u8;
    while *q != 0 {
        let c = *q;
        if c.is_ascii_digit() {
            v = v.wrapping_mul(10).wrapping_add((c - b'0') as u64);
        }
        q = q.add(1);
    }
    Some(v)
}

/// # Safety
/// libc ABI.
#[no_mangle]
pub unsafe extern "C" fn getrandom(buf: *mut libc::c_void, buflen: libc::size_t, flags: libc::c_uint) -> libc::ssize_t {
    if INIT.load(Ordering::SeqCst) == 0 {
        match seed_from_env() {
            Some(s) => {
                STATE.store(s, Ordering::SeqCst);
                INIT.store(1, Ordering::SeqCst);
            }
            None => INIT.store(2, Ordering::SeqCst),
        }
    }
    if INIT.load(Ordering::SeqCst) == 2 {
        return libc::syscall(libc::SYS_getrandom, buf, buflen, flags) as libc::ssize_t;
    }
    let out = buf as *mut u8;
    let mut i = 0usize;
    while i < buflen {
        let mut s = STATE.load(Ordering::SeqCst);
        let block = splitmix64(&mut s).to_le_bytes();
        STATE.store(s, Ordering::SeqCst);
        for b in block {
            if i >= buflen {
                break;
            }
            *out.add(i) = b;
            i += 1;
        }
    }
    buflen as libc::ssize_t
}
