#!/usr/bin/env bash
# sensitivity/run.sh <check id> <diff>...: apply each diff to /repo, run the quick check, undo.
ID="$1"; shift
for d in "$@"; do
  git -C /repo apply "$(realpath "$d")" || { echo "APPLY FAILED $d"; continue; }
  t0=$(date +%s.%N)
  out=$(/verif/check "$ID" --tier quick 2>&1); code=$?
  t1=$(date +%s.%N)
  git -C /repo checkout -- .
  printf "%s exit=%s %.1fs :: %s\n" "$(basename "$d")" "$code" "$(echo "$t1 - $t0" | bc)" "$(echo "$out" | grep -E 'VIOLATION|HARNESS|minimised|class' | tr '\n' '|' | cut -c1-400)"
done
