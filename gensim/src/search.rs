//! Seeded search over plans, statistics, minimisation, replay, evidence.

use crate::dispatch::{MethodModel, MODEL};
use crate::exec::{self, Apps, RunResult, TaskEnd};
use crate::isolate::{Isolator, Kind, Scenario};
use crate::oracle::{self, Twin, Violation};
use crate::plan::{CallPlan, Plan, RunCfg, TaskPlan};
use crate::sim::Ev;
use serde_json::{json, Value};
use simcore::Rng;
use std::collections::{BTreeMap, BTreeSet};
use std::path::{Path, PathBuf};
use std::sync::atomic::{AtomicBool, AtomicU64, Ordering};
use std::sync::Mutex;

const UNIMOCK_BUILD: bool = cfg!(feature = "unimock");

fn arg_value(args: &[String], name: &str) -> Option<String> {
    args.iter().position(|a| a == name).and_then(|i| args.get(i + 1).cloned())
}

/// Which methods a property's check draws its top-level calls from, and on
/// which handle.
pub struct Pool {
    pub property: &'static str,
    pub methods: Vec<u16>,
    pub mock_handle: bool,
    pub alloc_oracle: bool,
    pub history_oracle: bool,
}

pub fn pool_for(property: &str) -> Option<Pool> {
    let by = |f: &dyn Fn(&MethodModel) -> bool| -> Vec<u16> { MODEL.iter().filter(|m| m.available && f(m)).map(|m| m.id).collect() };
    Some(match property {
        "C01" => Pool {
            property: "C01",
            methods: by(&|m| m.props.contains(&"C01")),
            mock_handle: false,
            alloc_oracle: false,
            history_oracle: true,
        },
        "C06" => Pool {
            property: "C06",
            methods: by(&|m| m.section == "trait"),
            mock_handle: false,
            alloc_oracle: false,
            history_oracle: true,
        },
        "C07" => Pool {
            property: "C07",
            methods: by(&|m| m.section == "inversion"),
            mock_handle: false,
            alloc_oracle: false,
            history_oracle: true,
        },
        "C11" => Pool {
            property: "C11",
            methods: by(&|m| m.unmockable || m.refuses),
            mock_handle: true,
            alloc_oracle: false,
            history_oracle: true,
        },
        "C14" => Pool {
            property: "C14",
            methods: by(&|m| !m.dynamic),
            mock_handle: false,
            alloc_oracle: true,
            history_oracle: false,
        },
        _ => return None,
    })
}

fn gen_cfg(rng: &mut Rng) -> RunCfg {
    RunCfg {
        max_leaf: *rng.pick(&[0, 1, 1, 2, 3]),
        max_alloc: *rng.pick(&[0, 1, 1, 2]),
        leaf_panic_pm: *rng.pick(&[0, 0, 0, 0, 25, 80]),
        p_deliver: *rng.pick(&[150, 300, 500, 800]),
        p_cancel: *rng.pick(&[0, 0, 10, 40, 100]),
        p_spurious: *rng.pick(&[0, 0, 40, 150]),
        fault_steps: *rng.pick(&[0, 20, 60, 150, 300]),
    }
}

pub fn gen_plan(rng: &mut Rng, pool: &Pool) -> Plan {
    let n_tasks = match rng.below(10) {
        0..=2 => 1,
        3..=5 => 2,
        6..=7 => 3,
        8 => rng.range(4, 6),
        _ => rng.range(6, 8),
    } as usize;
    let mut used: BTreeSet<u64> = BTreeSet::new();
    let mut fresh = |rng: &mut Rng| -> u64 {
        loop {
            let v = 1 + rng.below((1u64 << 31) - 2);
            if used.insert(v) {
                return v;
            }
        }
    };
    let mut tasks = vec![];
    let mut total_calls = 0;
    // threaded runs: sync-only tasks on their own parked OS threads, so that
    // several sync calls are in flight on one Impl<T> at once
    let sync_methods: Vec<u16> = pool.methods.iter().copied().filter(|m| !MODEL[*m as usize].is_async).collect();
    let threaded_run = !sync_methods.is_empty() && n_tasks >= 2 && rng.chance(25);
    let n_tasks = if threaded_run { n_tasks.min(3) } else { n_tasks };
    for _ in 0..n_tasks {
        let app = if pool.mock_handle {
            if rng.chance(850) {
                2
            } else {
                0
            }
        } else {
            rng.below(2) as u8
        };
        let n_calls = rng.range(1, 5) as usize;
        let mut calls = vec![];
        for _ in 0..n_calls {
            let method = if threaded_run { *rng.pick(&sync_methods) } else { *rng.pick(&pool.methods) };
            let m = &MODEL[method as usize];
            let mut vals = [0u64; 16];
            for v in vals.iter_mut() {
                *v = fresh(rng);
            }
            // value-dependent behaviour: some calls use boundary values and REPEATED values
            // (argument order is then not observable for that call, everything else is)
            if rng.chance(120) {
                const SPECIAL: [u64; 10] = [0, 1, 2, 7, 255, 256, 65_535, 65_536, 1_000_000_007, (1 << 31) - 1];
                for v in vals.iter_mut() {
                    if rng.chance(600) {
                        *v = *rng.pick(&SPECIAL);
                    }
                }
            }
            let flavor = if m.is_async && rng.chance(70) { 1 } else { 0 };
            calls.push(CallPlan { method, vals, flavor });
        }
        total_calls += n_calls;
        tasks.push(TaskPlan { app, calls, threaded: threaded_run });
    }
    let n_dec = 96 + 48 * total_calls;
    let decisions = (0..n_dec).map(|_| rng.next_u64() as u32).collect();
    let mut cfg = gen_cfg(rng);
    if threaded_run {
        // a sync call cannot be cancelled
        cfg.p_cancel = 0;
    }
    Plan { tasks, cfg, decisions }
}

#[derive(Default)]
pub struct Stats {
    pub det_checked: u64,
    pub det_mismatch: u64,
    pub runs: u64,
    pub twin_runs: u64,
    pub twin_misaligned: u64,
    pub steps: u64,
    pub polls: u64,
    pub calls_completed: u64,
    pub functions_entered: u64,
    pub tasks: u64,
    pub tasks_completed: u64,
    pub tasks_cancelled: u64,
    pub tasks_panicked: u64,
    pub faults: BTreeMap<&'static str, u64>,
    pub cancel_points: BTreeSet<(u16, u32)>,
    pub cancel_at_poll_hist: BTreeMap<u32, u64>,
    pub max_in_flight: u32,
    pub windows: u64,
    pub windows_static: u64,
    pub declared_allocs_matched: u64,
    pub dynamic_alloc_excess: u64,
    pub poll_sequences: BTreeSet<u64>,
    pub poll_sequences_nontrivial: BTreeSet<u64>,
    pub method_calls: BTreeMap<u16, u64>,
    pub extra_pending_probe: u64,
    pub moved_args_conserved: u64,
    pub lookups: u64,
    pub create_and_drop_calls: u64,
    pub refused_calls: u64,
    pub threaded_runs: u64,
    pub sync_segments_interleaved: u64,
}

impl Stats {
    pub fn merge(&mut self, o: Stats) {
        self.det_checked += o.det_checked;
        self.det_mismatch += o.det_mismatch;
        self.runs += o.runs;
        self.twin_runs += o.twin_runs;
        self.twin_misaligned += o.twin_misaligned;
        self.steps += o.steps;
        self.polls += o.polls;
        self.calls_completed += o.calls_completed;
        self.functions_entered += o.functions_entered;
        self.tasks += o.tasks;
        self.tasks_completed += o.tasks_completed;
        self.tasks_cancelled += o.tasks_cancelled;
        self.tasks_panicked += o.tasks_panicked;
        for (k, v) in o.faults {
            *self.faults.entry(k).or_default() += v;
        }
        self.cancel_points.extend(o.cancel_points);
        for (k, v) in o.cancel_at_poll_hist {
            *self.cancel_at_poll_hist.entry(k).or_default() += v;
        }
        self.max_in_flight = self.max_in_flight.max(o.max_in_flight);
        self.windows += o.windows;
        self.windows_static += o.windows_static;
        self.declared_allocs_matched += o.declared_allocs_matched;
        self.dynamic_alloc_excess += o.dynamic_alloc_excess;
        self.poll_sequences.extend(o.poll_sequences);
        self.poll_sequences_nontrivial.extend(o.poll_sequences_nontrivial);
        for (k, v) in o.method_calls {
            *self.method_calls.entry(k).or_default() += v;
        }
        self.extra_pending_probe += o.extra_pending_probe;
        self.moved_args_conserved += o.moved_args_conserved;
        self.lookups += o.lookups;
        self.create_and_drop_calls += o.create_and_drop_calls;
        self.refused_calls += o.refused_calls;
        self.threaded_runs += o.threaded_runs;
        self.sync_segments_interleaved += o.sync_segments_interleaved;
    }

    pub fn record(&mut self, plan: &Plan, r: &RunResult) {
        self.runs += 1;
        if plan.tasks.iter().any(|t| t.threaded) {
            self.threaded_runs += 1;
            if r.max_in_flight >= 2 {
                self.sync_segments_interleaved += 1;
            }
        }
        self.steps += r.steps as u64;
        self.tasks += plan.tasks.len() as u64;
        self.max_in_flight = self.max_in_flight.max(r.max_in_flight);
        for e in &r.ends {
            match e {
                TaskEnd::Completed => self.tasks_completed += 1,
                TaskEnd::Cancelled => self.tasks_cancelled += 1,
                TaskEnd::Panicked => self.tasks_panicked += 1,
                TaskEnd::Stuck => {}
            }
        }
        let static_task: Vec<bool> = plan
            .tasks
            .iter()
            .map(|t| t.app != 2 && t.calls.iter().all(|c| !MODEL[c.method as usize].dynamic))
            .collect();
        let mut seq = simcore::fnv1a64(b"polls");
        let mut any_fault = false;
        let mut polls_of_task = vec![0u32; plan.tasks.len()];
        let mut polls_at_call_start = vec![0u32; plan.tasks.len()];
        let mut depth = vec![0u32; plan.tasks.len()];
        let mut outer_method = vec![u16::MAX; plan.tasks.len()];
        let mut woken_seen: BTreeSet<u8> = BTreeSet::new();
        for ev in &r.events {
            match ev {
                Ev::CallStart { task, method, flavor, .. } => {
                    let t = *task as usize;
                    if depth[t] == 0 {
                        outer_method[t] = *method;
                        polls_at_call_start[t] = polls_of_task[t];
                        *self.method_calls.entry(*method).or_default() += 1;
                        if *flavor == 1 {
                            self.create_and_drop_calls += 1;
                        }
                        if *flavor == 2 {
                            self.refused_calls += 1;
                        }
                    }
                    depth[t] += 1;
                }
                Ev::CallEnd { task, .. } => {
                    let t = *task as usize;
                    depth[t] = depth[t].saturating_sub(1);
                    if depth[t] == 0 {
                        self.calls_completed += 1;
                        outer_method[t] = u16::MAX;
                    }
                }
                Ev::Enter { .. } => self.functions_entered += 1,
                Ev::Lookup { .. } => self.lookups += 1,
                Ev::Wake { task } => {
                    woken_seen.insert(*task);
                }
                Ev::PollStart { task } => {
                    self.polls += 1;
                    seq = simcore::fnv_extend(seq, &[*task]);
                    polls_of_task[*task as usize] += 1;
                }
                Ev::PollEnd { task, ready, leaf_pendings, allocs, declared } => {
                    if *allocs != u32::MAX {
                        self.windows += 1;
                    }
                    let t = *task as usize;
                    if static_task[t] && *allocs != u32::MAX {
                        self.windows_static += 1;
                        if allocs == declared {
                            self.declared_allocs_matched += *declared as u64;
                        }
                    }
                    if !*ready && *leaf_pendings == 0 {
                        self.extra_pending_probe += 1;
                    }
                    if *leaf_pendings > 0 {
                        *self.faults.entry("pending_injection").or_default() += *leaf_pendings as u64;
                    }
                }
                Ev::Cancel { task } => {
                    any_fault = true;
                    let t = *task as usize;
                    *self.faults.entry("cancel").or_default() += 1;
                    let k = polls_of_task[t] - polls_at_call_start[t];
                    *self.cancel_at_poll_hist.entry(polls_of_task[t]).or_default() += 1;
                    if outer_method[t] != u16::MAX {
                        self.cancel_points.insert((outer_method[t], k));
                    }
                }
                Ev::Panicked { .. } => {
                    any_fault = true;
                    *self.faults.entry("leaf_panic").or_default() += 1;
                }
                Ev::Drop { .. } => self.moved_args_conserved += 1,
                _ => {}
            }
        }
        if r.spurious_polls > 0 {
            any_fault = true;
            *self.faults.entry("spurious_poll").or_default() += r.spurious_polls as u64;
        }
        if r.wake_delays > 0 {
            any_fault = true;
            *self.faults.entry("wake_delay").or_default() += r.wake_delays as u64;
        }
        if r.wake_reorders > 0 {
            any_fault = true;
            *self.faults.entry("wake_reorder").or_default() += r.wake_reorders as u64;
        }
        self.dynamic_alloc_excess += oracle::dynamic_alloc_excess(plan, r);
        self.poll_sequences.insert(seq);
        if any_fault && r.max_in_flight >= 2 {
            self.poll_sequences_nontrivial.insert(seq);
        }
    }
}

/// Two executions of one plan must record the same history (receiver
/// addresses of per-run Unimock clones excepted).
fn same_history(plan: &Plan, a: &RunResult, b: &RunResult) -> bool {
    let mock = plan.tasks.iter().any(|t| t.app == 2);
    if a.events.len() != b.events.len() || a.ends != b.ends {
        return false;
    }
    a.events.iter().zip(&b.events).all(|(x, y)| {
        if x == y {
            return true;
        }
        let _ = mock;
        match (x, y) {
            (Ev::PollEnd { task: t1, ready: r1, leaf_pendings: l1, .. }, Ev::PollEnd { task: t2, ready: r2, leaf_pendings: l2, .. }) => t1 == t2 && r1 == r2 && l1 == l2,
            (Ev::SyncEnd { task: t1, .. }, Ev::SyncEnd { task: t2, .. }) => t1 == t2,
            (Ev::Panicked { task: t1, .. }, Ev::Panicked { task: t2, .. }) => t1 == t2,
            (Ev::CallStart { task: t1, method: m1, n: n1, args: a1, flavor: f1, .. }, Ev::CallStart { task: t2, method: m2, n: n2, args: a2, flavor: f2, .. }) => {
                t1 == t2 && m1 == m2 && n1 == n2 && a1 == a2 && f1 == f2
            }
            (Ev::Enter { task: t1, fn_id: m1, n: n1, args: a1, .. }, Ev::Enter { task: t2, fn_id: m2, n: n2, args: a2, .. }) => t1 == t2 && m1 == m2 && n1 == n2 && a1 == a2,
            _ => false,
        }
    })
}

pub struct Found {
    pub run_index: u64,
    pub plan: Plan,
    pub violations: Vec<Violation>,
    pub mode_note: String,
}

/// All oracles this pool asserts, on one plan. Returns violations.
pub fn evaluate(plan: &Plan, apps: &Apps, pool: &Pool, twin: bool, stats: Option<&mut Stats>) -> Vec<Violation> {
    let r = exec::run(plan, apps, 0, false);
    let mut v = vec![];
    if pool.history_oracle {
        v.extend(oracle::check_history(plan, &r));
    }
    if pool.alloc_oracle {
        v.extend(oracle::check_allocs(plan, &r));
    }
    let mut twin_misaligned = false;
    let mut twin_ran = false;
    // a refused call has no Impl<T>-path counterpart to compare with
    let refusing = plan.tasks.iter().any(|t| t.app == 2 && t.calls.iter().any(|c| MODEL[c.method as usize].refuses));
    if twin && v.is_empty() && !refusing {
        let r2 = exec::run(plan, apps, 1, false);
        twin_ran = true;
        let static_task: Vec<bool> = plan
            .tasks
            .iter()
            .map(|t| pool.alloc_oracle && t.app != 2 && t.calls.iter().all(|c| !MODEL[c.method as usize].dynamic))
            .collect();
        // receiver identity is checked inside each execution (O1); across two
        // executions stack-local receivers (by-value deps) legitimately differ
        let compare_recv = false;
        match oracle::compare_twin(&r, &r2, &static_task, compare_recv, pool.history_oracle) {
            Twin::Same => {}
            Twin::Misaligned => twin_misaligned = true,
            Twin::Differs(msg) => {
                // allocation differences belong to C14, history differences to the others
                let is_alloc = msg.contains("heap allocations");
                if (is_alloc && pool.alloc_oracle) || (!is_alloc && pool.history_oracle) {
                    v.push(Violation {
                        oracle: if is_alloc { "O5" } else { "O4" },
                        task: 0,
                        method: plan.tasks[0].calls.first().map(|c| c.method).unwrap_or(u16::MAX),
                        message: msg,
                    });
                }
            }
        }
    }
    if let Some(s) = stats {
        s.record(plan, &r);
        if twin_ran {
            s.twin_runs += 1;
        }
        if twin_misaligned {
            s.twin_misaligned += 1;
        }
    }
    v
}

pub fn sample_history(plan: &Plan, apps: &Apps) -> Value {
    let r = exec::run(plan, apps, 0, false);
    let mut lines = vec![];
    for ev in r.events.iter().take(70) {
        let s = match ev {
            Ev::CallStart { task, method, n, args, flavor, .. } => format!(
                "t{task} call {}({}){}",
                MODEL[*method as usize].name,
                args[..*n as usize].iter().map(|a| a.to_string()).collect::<Vec<_>>().join(","),
                if *flavor == 1 { " [create+drop]" } else { "" }
            ),
            Ev::Enter { task, fn_id, n, args, .. } => format!(
                "t{task}   enter fn#{fn_id}({})",
                args[..*n as usize].iter().map(|a| a.to_string()).collect::<Vec<_>>().join(",")
            ),
            Ev::Exit { task, fn_id, result } => format!("t{task}   exit fn#{fn_id} -> {result}"),
            Ev::CallEnd { task, method, ret } => format!("t{task} ret {} -> {ret}", MODEL[*method as usize].name),
            Ev::Lookup { task, kind } => format!("t{task}   provider lookup kind {kind}"),
            Ev::PollStart { task } => format!("t{task} POLL"),
            Ev::PollEnd { task, ready, leaf_pendings, allocs, declared } => {
                format!("t{task} POLL-END ready={ready} leaf_pendings={leaf_pendings} allocs={allocs} declared={declared}")
            }
            Ev::Cancel { task } => format!("t{task} CANCEL (future dropped here)"),
            Ev::Panicked { task, .. } => format!("t{task} LEAF PANIC unwound through the call"),
            Ev::Construct { task, id } => format!("t{task}   construct moved arg {id}"),
            Ev::Drop { task, id } => format!("t{task}   drop moved arg {id}"),
            _ => continue,
        };
        lines.push(s);
    }
    json!({
        "tasks": plan.tasks.iter().map(|t| json!({"app": (["Impl<AppA>", "Impl<AppB>", "Unimock(partial)"][t.app.min(2) as usize]),
            "calls": t.calls.iter().map(|c| MODEL[c.method as usize].name).collect::<Vec<_>>()})).collect::<Vec<_>>(),
        "cfg": plan.to_json()["cfg"],
        "task_ends": r.ends.iter().map(|e| format!("{e:?}")).collect::<Vec<_>>(),
        "history_prefix": lines,
    })
}

// ---------------------------------------------------------------------------
// minimisation
// ---------------------------------------------------------------------------

fn minimise(plan: Plan, apps: &Apps, pool: &Pool, oracle_id: &'static str, twin: bool) -> (Plan, u64) {
    let mut execs = 0u64;
    let mut fails = |p: &Plan| -> bool {
        if p.tasks.is_empty() || p.tasks.iter().all(|t| t.calls.is_empty()) {
            return false;
        }
        execs += 1;
        evaluate(p, apps, pool, twin, None).iter().any(|v| v.oracle == oracle_id)
    };
    let mut best = plan;
    // tasks
    let tasks = best.tasks.clone();
    let base = best.clone();
    best.tasks = simcore::ddmin::ddmin(tasks, &mut |cand| {
        let mut p = base.clone();
        p.tasks = cand.to_vec();
        fails(&p)
    });
    // calls per task
    for ti in 0..best.tasks.len() {
        let calls = best.tasks[ti].calls.clone();
        let base = best.clone();
        best.tasks[ti].calls = simcore::ddmin::ddmin(calls, &mut |cand| {
            let mut p = base.clone();
            p.tasks[ti].calls = cand.to_vec();
            fails(&p)
        });
    }
    // faults off, one at a time
    for f in 0..6 {
        let mut p = best.clone();
        match f {
            0 => p.cfg.p_cancel = 0,
            1 => p.cfg.p_spurious = 0,
            2 => p.cfg.leaf_panic_pm = 0,
            3 => p.cfg.fault_steps = 0,
            4 => p.cfg.max_leaf = 0,
            _ => p.cfg.max_alloc = 0,
        }
        if p != best && fails(&p) {
            best = p;
        }
    }
    // decisions: none, else shortest prefix, then zero out
    let mut p = best.clone();
    p.decisions.clear();
    if fails(&p) {
        best = p;
    } else {
        let (mut lo, mut hi) = (0usize, best.decisions.len());
        while lo + 1 < hi {
            let mid = (lo + hi) / 2;
            let mut p = best.clone();
            p.decisions.truncate(mid);
            if fails(&p) {
                hi = mid;
            } else {
                lo = mid;
            }
        }
        let mut p = best.clone();
        p.decisions.truncate(hi);
        if fails(&p) {
            best = p;
        }
        for i in 0..best.decisions.len().min(200) {
            if best.decisions[i] == 0 {
                continue;
            }
            let mut p = best.clone();
            p.decisions[i] = 0;
            if fails(&p) {
                best = p;
            }
        }
    }
    // flavors
    for ti in 0..best.tasks.len() {
        for ci in 0..best.tasks[ti].calls.len() {
            if best.tasks[ti].calls[ci].flavor != 0 {
                let mut p = best.clone();
                p.tasks[ti].calls[ci].flavor = 0;
                if fails(&p) {
                    best = p;
                }
            }
        }
    }
    (best, execs)
}

pub fn plan_size(p: &Plan) -> Value {
    json!({"tasks": p.tasks.len(), "calls": p.tasks.iter().map(|t| t.calls.len()).sum::<usize>(), "decisions": p.decisions.len(),
           "faults_enabled": ([p.cfg.p_cancel > 0, p.cfg.p_spurious > 0, p.cfg.leaf_panic_pm > 0].iter().filter(|x| **x).count())})
}

// ---------------------------------------------------------------------------
// check
// ---------------------------------------------------------------------------

pub fn check(args: &[String]) -> i32 {
    let t0 = simcore::real_now_s();
    let Some(property) = args.get(2).cloned() else {
        eprintln!("usage: gensim check <ID> [--tier quick|thorough]");
        return 2;
    };
    let Some(pool) = pool_for(&property) else {
        eprintln!("HARNESS-ERROR: gensim does not serve property {property}");
        return 2;
    };
    if pool.mock_handle && !UNIMOCK_BUILD {
        eprintln!("HARNESS-ERROR: {property} needs the unimock build of gensim");
        return 2;
    }
    let tier = arg_value(args, "--tier").unwrap_or_else(|| "quick".into());
    let tier: &str = if tier == "thorough" { "thorough" } else { "quick" };
    let seed = arg_value(args, "--seed").and_then(|s| s.parse::<i64>().ok()).map(|v| v as u64).unwrap_or_else(simcore::env_seed);
    let verif = PathBuf::from(arg_value(args, "--verif").unwrap_or_else(|| "/verif".into()));
    let default_runs: u64 = if tier == "thorough" { 60_000_000 } else { 3_000_000 };
    let max_runs: u64 = arg_value(args, "--runs").and_then(|s| s.parse().ok()).unwrap_or(default_runs);
    let wall_cap: f64 = arg_value(args, "--wall").and_then(|s| s.parse().ok()).unwrap_or(if tier == "thorough" { 240.0 } else { 12.0 });
    let part = arg_value(args, "--part").unwrap_or_else(|| "default".into());
    let workers = std::thread::available_parallelism().map(|n| n.get()).unwrap_or(4);
    let twin_every: u64 = if pool.alloc_oracle { 1 } else { 8 };
    // the two feature builds must not explore the same runs
    let seed_eff = if UNIMOCK_BUILD { seed ^ 0x756e_696d_6f63_6b00 } else { seed };

    println!("gensim: property={property} tier={tier} VERIF_SEED={seed} build={} workers={workers} methods={}", if UNIMOCK_BUILD { "unimock" } else { "default" }, pool.methods.len());
    let apps = Apps::new();
    let next = AtomicU64::new(0);
    let stop = AtomicBool::new(false);
    let merged = Mutex::new(Stats::default());
    let found: Mutex<Vec<Found>> = Mutex::new(vec![]);
    std::thread::scope(|s| {
        for _ in 0..workers {
            let (next, stop, merged, found, pool, apps) = (&next, &stop, &merged, &found, &pool, &apps);
            s.spawn(move || {
                let mut stats = Stats::default();
                let mut since_clock = 0;
                loop {
                    if stop.load(Ordering::Relaxed) {
                        break;
                    }
                    let i = next.fetch_add(1, Ordering::Relaxed);
                    if i >= max_runs {
                        break;
                    }
                    since_clock += 1;
                    if since_clock >= 256 {
                        since_clock = 0;
                        if simcore::real_now_s() - t0 > wall_cap {
                            break;
                        }
                    }
                    let mut rng = Rng::for_run(seed_eff, i);
                    let plan = gen_plan(&mut rng, pool);
                    let twin = i % twin_every == 0;
                    let v = evaluate(&plan, apps, pool, twin, Some(&mut stats));
                    if i % 64 == 0 {
                        // harness self-check: one plan, two executions, same history
                        let a = exec::run(&plan, apps, 0, false);
                        let b = exec::run(&plan, apps, 0, false);
                        stats.det_checked += 1;
                        if !same_history(&plan, &a, &b) {
                            // the executor is deterministic, so a difference means the code under
                            // test carries state from one execution to the next: judge both
                            // executions with the oracles first; only an unexplained difference
                            // is a harness problem
                            let mut vv = vec![];
                            for r in [&a, &b] {
                                if pool.history_oracle {
                                    vv.extend(oracle::check_history(&plan, r));
                                }
                                if pool.alloc_oracle {
                                    vv.extend(oracle::check_allocs(&plan, r));
                                }
                            }
                            if vv.is_empty() {
                                stats.det_mismatch += 1;
                            } else {
                                found.lock().unwrap().push(Found { run_index: i, plan: plan.clone(), violations: vv, mode_note: String::new() });
                                stop.store(true, Ordering::Relaxed);
                            }
                        }
                    }
                    if !v.is_empty() {
                        found.lock().unwrap().push(Found { run_index: i, plan, violations: v, mode_note: String::new() });
                        stop.store(true, Ordering::Relaxed);
                    }
                }
                merged.lock().unwrap().merge(stats);
            });
        }
    });
    let mut stats = merged.into_inner().unwrap();
    let search_wall = simcore::real_now_s() - t0;
    if stats.det_mismatch > 0 {
        eprintln!("HARNESS-ERROR: {} of {} plans recorded different histories when executed twice (the simulator is not deterministic)", stats.det_mismatch, stats.det_checked);
        return 2;
    }

    // C14: the cancellation-point x method table is finite; thorough sweeps it
    let mut sweep = json!(null);
    let mut found = found.into_inner().unwrap();
    if pool.alloc_oracle && found.is_empty() {
        let (sw, sweep_found) = sweep_cancel_points(&apps, &pool, tier == "thorough");
        sweep = sw;
        found.extend(sweep_found);
    }

    println!(
        "gensim: {} runs ({} twin executions), {} polls, {} calls completed, {} cancellations, {:.1}s ({:.0} runs/s)",
        stats.runs,
        stats.twin_runs,
        stats.polls,
        stats.calls_completed,
        stats.faults.get("cancel").copied().unwrap_or(0),
        search_wall,
        stats.runs as f64 / search_wall.max(1e-9)
    );

    let known = simcore::evidence::load_known_findings(&verif.join("known_findings.json"));
    let mut reported = 0u64;
    let mut lines = vec![];
    found.sort_by_key(|f| f.run_index);
    if let Some(f) = found.first() {
        let kind = Kind::Oracle(f.violations[0].oracle.to_string());
        if let Some(r) = isolate_and_write(&property, &pool, seed, seed_eff, &verif, kind, Some(f), (f.run_index + 1).clamp(200_000, 1_000_000), if tier == "thorough" { 600.0 } else { 28.0 }) {
            if let Some(k) = known.iter().find(|k| k.property_id == property && k.status == "open" && k.signature == r.signature) {
                println!("KNOWN-FINDING: property={property} {}", k.what);
            } else {
                reported += 1;
                println!("gensim: {}", r.headline);
                println!("gensim: {}", r.detail);
                lines.push(format!("VIOLATION property={property} replay={}", r.path.display()));
            }
        }
    }

    let wall = simcore::real_now_s() - t0;
    let evidence_path = verif.join("evidence").join(format!("{property}.json"));
    let samples: Vec<Value> = (0..3u64)
        .map(|i| {
            let mut rng = Rng::for_run(seed_eff, i);
            sample_history(&gen_plan(&mut rng, &pool), &apps)
        })
        .collect();
    let cov = coverage_json(&property, &pool, &mut stats, samples, search_wall, sweep);
    if let Err(e) = write_evidence(&evidence_path, &property, tier, seed, &pool, cov, wall, reported, &part) {
        eprintln!("HARNESS-ERROR: evidence: {e}");
        return 2;
    }
    for l in &lines {
        println!("{l}");
    }
    if reported > 0 {
        1
    } else {
        println!("gensim: {property} held on everything explored ({} build)", if UNIMOCK_BUILD { "unimock" } else { "default" });
        0
    }
}

fn coverage_json(property: &str, pool: &Pool, s: &mut Stats, samples: Vec<Value>, search_wall: f64, sweep: Value) -> Value {
    let async_methods: Vec<&MethodModel> = pool.methods.iter().map(|m| &MODEL[*m as usize]).filter(|m| m.is_async).collect();
    let mut per_method_cancel: BTreeMap<&str, Vec<u32>> = BTreeMap::new();
    for (m, k) in &s.cancel_points {
        per_method_cancel.entry(MODEL[*m as usize].name).or_default().push(*k);
    }
    let methods_called = s.method_calls.len();
    json!({
        "evaluations": s.runs.max(1),
        "distinct_nontrivial": s.poll_sequences_nontrivial.len(),
        "rule": "One evaluation = one seeded run = one plan (1..8 tasks of 1..5 calls through generated trait methods on shared Impl<App> handles or clones of one partial Unimock; argument values pairwise distinct; fault rates drawn per run, swarm style) executed by the deterministic executor. distinct_nontrivial = number of distinct polled-task sequences (64-bit hash of the order in which tasks were polled; set merged across workers) among runs that fired at least one fault (cancellation, spurious poll, delayed or reordered wake, leaf panic) AND had at least two calls in flight at once.",
        "samples": samples,
        "property": property,
        "build": if UNIMOCK_BUILD { "unimock" } else { "default" },
        "corpus_containers_compiled_out": MODEL.iter().filter(|m| !m.available).map(|m| m.container).collect::<BTreeSet<_>>().len(),
        "corpus_methods_compiled_out": MODEL.iter().filter(|m| !m.available).map(|m| m.name).collect::<Vec<_>>(),
        "methods_in_pool": pool.methods.len(),
        "methods_called": methods_called,
        "runs": s.runs,
        "determinism_self_check": {"plans_executed_twice": s.det_checked, "history_differences": s.det_mismatch},
        "twin_executions": s.twin_runs,
        "twin_misaligned_skipped": s.twin_misaligned,
        "runs_per_hour": (s.runs as f64 / search_wall.max(1e-9) * 3600.0).round(),
        "simulated_time": {"scheduler_steps": s.steps, "polls": s.polls, "note": "no SUT component reads a clock; time is scheduler steps"},
        "calls_completed": s.calls_completed,
        "original_functions_entered": s.functions_entered,
        "provider_lookups": s.lookups,
        "create_and_drop_calls": s.create_and_drop_calls,
        "calls_that_must_be_refused (not un-mockable, partial mock)": s.refused_calls,
        "threaded_runs (sync tasks on parked OS threads)": s.threaded_runs,
        "threaded_runs_with_two_or_more_sync_calls_in_flight": s.sync_segments_interleaved,
        "tasks": {"total": s.tasks, "completed": s.tasks_completed, "cancelled": s.tasks_cancelled, "panicked": s.tasks_panicked},
        "faults_fired": s.faults,
        "cancel_at_poll_histogram": s.cancel_at_poll_hist,
        "cancel_points": {
            "distinct_method_x_poll_pairs_hit": s.cancel_points.len(),
            "async_methods_in_pool": async_methods.len(),
            "async_methods_cancelled_mid_call": per_method_cancel.len(),
            "max_poll_index_per_method": per_method_cancel.iter().map(|(k, v)| (k.to_string(), json!(v.iter().max()))).collect::<BTreeMap<_, _>>(),
        },
        "max_calls_in_flight": s.max_in_flight,
        "alloc_windows": {"measured": s.windows, "on_static_tasks": s.windows_static, "declared_user_allocations_matched": s.declared_allocs_matched,
                          "excess_allocations_seen_where_dynamic_dispatch_was_requested": s.dynamic_alloc_excess},
        "moved_argument_drops_observed": s.moved_args_conserved,
        "probes": {"polls_returning_pending_without_a_leaf_pending": s.extra_pending_probe},
        "distinct": {"polled_task_sequences": s.poll_sequences.len(), "nontrivial": s.poll_sequences_nontrivial.len()},
        "cancel_point_sweep": sweep,
        "real_vs_stub": {
            "real": ["expansions of #[entrait] on the corpus, produced by the shipped proc-macro built from /repo's working tree", "entrait::Impl<T>", "async-trait", "unimock (unimock build)"],
            "simulator_owned": ["the user's functions and leaf dependencies (history recorder, scheduler-controlled leaf futures)", "the global allocator (counting, windowed)"],
            "stub": ["executor, wakers, task scheduling (own deterministic executor; no tokio)"],
        },
        "exhaustive": false,
    })
}

fn write_evidence(path: &Path, property: &str, tier: &str, seed: u64, pool: &Pool, mut cov: Value, wall: f64, violations: u64, part: &str) -> std::io::Result<()> {
    let mut wall_total = wall;
    let mut violations_total = violations;
    if part == "second" {
        // merge with the part written by the other feature build
        if let Ok(text) = std::fs::read_to_string(path) {
            if let Ok(prev) = serde_json::from_str::<Value>(&text) {
                let pc = &prev["coverage"];
                let sum = |a: &Value, b: &Value| a.as_u64().unwrap_or(0) + b.as_u64().unwrap_or(0);
                let evaluations = sum(&pc["evaluations"], &cov["evaluations"]);
                let dn = sum(&pc["distinct_nontrivial"], &cov["distinct_nontrivial"]);
                let mut samples = pc["samples"].as_array().cloned().unwrap_or_default();
                samples.extend(cov["samples"].as_array().cloned().unwrap_or_default());
                let rule = format!("{} Two feature builds of the corpus (default, unimock) are explored with different PRNG streams; their counts are summed here and reported separately under per_build.", cov["rule"].as_str().unwrap_or(""));
                let mut a = pc.clone();
                let mut b = cov.clone();
                for x in [&mut a, &mut b] {
                    if let Some(o) = x.as_object_mut() {
                        o.remove("samples");
                        o.remove("rule");
                        o.remove("real_vs_stub");
                    }
                }
                cov = json!({
                    "evaluations": evaluations,
                    "distinct_nontrivial": dn,
                    "rule": rule,
                    "samples": samples,
                    "per_build": {"default": a, "unimock": b},
                    "real_vs_stub": cov["real_vs_stub"],
                    "exhaustive": false,
                });
                wall_total += prev["wall_s"].as_f64().unwrap_or(0.0);
                violations_total += prev["violations"].as_u64().unwrap_or(0);
            }
        }
    }
    let level = if pool.alloc_oracle { "fault_enumeration" } else { "exploration" };
    simcore::evidence::Evidence {
        property_id: property.into(),
        tier: tier.into(),
        seed,
        level: level.into(),
        coverage: cov,
        assumptions: vec![
            "programs are a fixed corpus generated from gensim/gen_corpus.py and compiled by rustc with the shipped macro; program space is not searched".into(),
            "argument identity is witnessed by value fingerprints recorded inside the original functions; wildcard parameters are invisible to the body and therefore unchecked".into(),
            "receiver identity is witnessed by address (token for by-value dependencies)".into(),
            "a clean batch is evidence, not proof".into(),
        ],
        wall_s: wall_total,
        violations: violations_total,
    }
    .write(path)
}

// ---------------------------------------------------------------------------
// C14: systematic sweep of the finite (method x cancellation point x {no, one
// spurious poll}) table, in the manner of bounded crash-point testing
// ---------------------------------------------------------------------------

fn scripted_plan(method: u16, app: u8, cancel_after: Option<u32>, spurious: bool, max_leaf_mode: u32) -> Plan {
    // decisions: every body draw = max_leaf_mode-ish value; scheduler draws
    // are scripted through the cfg instead (p_cancel = 0, p_spurious = 0)
    let mut vals = [0u64; 16];
    for (i, v) in vals.iter_mut().enumerate() {
        *v = 1000 + 17 * i as u64 + method as u64 * 101;
    }
    let _ = (cancel_after, spurious);
    Plan {
        tasks: vec![TaskPlan { app, calls: vec![CallPlan { method, vals, flavor: 0 }], threaded: false }],
        cfg: RunCfg { max_leaf: 1, max_alloc: 1, leaf_panic_pm: 0, p_deliver: 1000, p_cancel: 0, p_spurious: 0, fault_steps: 0 },
        decisions: vec![max_leaf_mode; 256],
    }
}

fn sweep_cancel_points(apps: &Apps, pool: &Pool, full: bool) -> (Value, Vec<Found>) {
    let mut total = 0u64;
    let mut hit = 0u64;
    let mut found = vec![];
    let methods: Vec<u16> = pool.methods.iter().copied().filter(|m| MODEL[*m as usize].is_async).collect();
    for (mi, m) in methods.iter().enumerate() {
        if !full && mi % 3 != 0 {
            continue;
        }
        for app in 0..2u8 {
            // with every decision = 1: each pause takes exactly one Pending, one declared allocation per function
            let base = scripted_plan(*m, app, None, false, 1);
            let r = exec::run(&base, apps, 0, false);
            let polls = r.events.iter().filter(|e| matches!(e, Ev::PollStart { .. })).count() as u32;
            for k in 0..=polls {
                for spurious in [false, true] {
                    total += 1;
                    let r = exec::run_scripted(&base, apps, k, spurious);
                    hit += 1;
                    let v = oracle::check_allocs(&base, &r);
                    if !v.is_empty() {
                        found.push(Found { run_index: 1_000_000_000 + total, plan: base.clone(), violations: v, mode_note: format!("sweep: cancel after {k} polls, spurious={spurious}") });
                    }
                }
            }
        }
    }
    (json!({"table": "async method x app x cancellation after k polls (k = 0..polls to completion, every pause = 1 Pending) x {no, one} extra poll before the cancellation", "cells_total": total, "cells_executed": hit, "exhaustive_over_table": full, "methods": methods.len()}), found)
}

// ---------------------------------------------------------------------------
// replay
// ---------------------------------------------------------------------------

pub fn replay(args: &[String]) -> i32 {
    let Some(file) = args.get(2) else {
        eprintln!("usage: gensim replay <file>");
        return 2;
    };
    let doc: Value = match std::fs::read_to_string(file).ok().and_then(|t| serde_json::from_str(&t).ok()) {
        Some(v) => v,
        None => {
            eprintln!("HARNESS-ERROR: cannot read {file}");
            return 2;
        }
    };
    let property = doc["property"].as_str().unwrap_or("").to_string();
    if pool_for(&property).is_none() {
        eprintln!("HARNESS-ERROR: unknown property in replay file");
        return 2;
    }
    let want_unimock = doc["build"] == "unimock";
    if want_unimock != UNIMOCK_BUILD {
        eprintln!("HARNESS-ERROR: replay file is for the {} build", doc["build"]);
        return 2;
    }
    let scd = &doc["scenario"];
    let seed_eff: u64 = scd["seed_eff"].as_str().and_then(|s| s.parse().ok()).unwrap_or(0);
    let sc = Scenario {
        history_idx: scd["history_idx"].as_array().map(|a| a.iter().filter_map(|x| x.as_u64()).collect()).unwrap_or_default(),
        history: scd["history"].as_array().map(|a| a.iter().map(Plan::from_json).collect()).unwrap_or_default(),
        plan: Plan::from_json(&scd["plan"]),
    };
    let verif = PathBuf::from(arg_value(args, "--verif").unwrap_or_else(|| "/verif".into()));
    let mut iso = Isolator::new(&property, seed_eff, &verif);
    let out = iso.exec(&sc);
    let _ = std::fs::remove_file(&iso.tmp);
    println!("replay: scenario = {} earlier run(s) + the final plan, executed single-threaded in a fresh process", sc.history_idx.len() + sc.history.len());
    for l in &out.trace {
        println!("  {l}");
    }
    if let Some(sig) = out.died {
        println!("replay: the process executing the scenario {}", if sig == 0 { "hung and was killed after the timeout".to_string() } else { format!("was killed by signal {sig}") });
        println!("VIOLATION property={property} replay={file}");
        return 1;
    }
    if out.violations.is_empty() {
        println!("replay: no violation (not reproduced on this tree)");
        0
    } else {
        for v in &out.violations {
            println!("replay: {} task {} `{}`: {}", v.0, v.1, v.2, v.3);
        }
        println!("VIOLATION property={property} replay={file}");
        1
    }
}

// ---------------------------------------------------------------------------
// isolation, triage, reporting (see isolate.rs)
// ---------------------------------------------------------------------------

/// `gensim range <ID> --seed S --from a --to b [--report --kind K]`:
/// single-threaded sequential execution of runs a..b in this process.
pub fn range(args: &[String]) -> i32 {
    use std::io::Write;
    let Some(pool) = args.get(2).and_then(|p| pool_for(p)) else { return 2 };
    let seed: u64 = arg_value(args, "--seed").and_then(|s| s.parse().ok()).unwrap_or(0);
    let from: u64 = arg_value(args, "--from").and_then(|s| s.parse().ok()).unwrap_or(0);
    let to: u64 = arg_value(args, "--to").and_then(|s| s.parse().ok()).unwrap_or(0);
    let report = args.iter().any(|a| a == "--report");
    let kind = arg_value(args, "--kind").unwrap_or_default();
    let apps = Apps::new();
    let stdout = std::io::stdout();
    for i in from..to {
        if report && kind == "DEATH" {
            let mut l = stdout.lock();
            let _ = writeln!(l, "AT {i}");
            let _ = l.flush();
        }
        let mut rng = Rng::for_run(seed, i);
        let plan = gen_plan(&mut rng, &pool);
        let v = evaluate(&plan, &apps, &pool, true, None);
        if report && v.iter().any(|x| x.oracle == kind) {
            println!("FOUND {i}");
            return 1;
        }
    }
    0
}

pub struct Reported {
    pub path: PathBuf,
    pub signature: String,
    pub headline: String,
    pub detail: String,
}

/// Reproduce in a fresh process, minimise the scenario, write the replay file.
#[allow(clippy::too_many_arguments)]
pub fn isolate_and_write(property: &str, pool: &Pool, seed: u64, seed_eff: u64, verif: &Path, kind: Kind, found: Option<&Found>, upto: u64, budget_s: f64) -> Option<Reported> {
    let mut iso = Isolator::new(property, seed_eff, verif).with_budget(budget_s);
    let mut scenario: Option<Scenario> = None;
    let mut class = "reproduced alone in a fresh process";
    if let Some(f) = found {
        let sc0 = Scenario { history_idx: vec![], history: vec![], plan: f.plan.clone() };
        if iso.exec(&sc0).shows(&kind) {
            scenario = Some(sc0);
        }
    }
    if scenario.is_none() {
        // depends on earlier runs in the same process (or the process died): find the
        // shortest deterministic single-threaded history 0..n that shows it
        if let Some(n) = iso.find_prefix(pool, &kind, upto) {
            let mut rng = Rng::for_run(seed_eff, n - 1);
            let sc = Scenario { history_idx: (0..n - 1).collect(), history: vec![], plan: gen_plan(&mut rng, pool) };
            if iso.exec(&sc).shows(&kind) {
                class = "depends on process state left by earlier runs: reproduced as a history of runs in one fresh process";
                scenario = Some(sc);
            }
        }
    }
    let build = if UNIMOCK_BUILD { "unimock" } else { "default" };
    let run_index = found.map(|f| f.run_index).unwrap_or(0);
    let Some(sc) = scenario else {
        // observed in the multi-threaded search process only
        let f = found?;
        let v0 = &f.violations[0];
        let mname = if v0.method != u16::MAX { MODEL[v0.method as usize].name } else { "-" };
        let path = verif.join("replays").join(format!("{property}-{seed}-{build}-run{run_index}-unisolated.json"));
        let doc = json!({
            "property": property, "engine": "gensim", "build": build, "seed": seed as i64, "run_index": run_index,
            "oracle": v0.oracle, "method": mname, "violation": v0.message, "isolated": false,
            "note": "observed in the multi-threaded search process; neither the plan alone nor the sequential history 0..=index reproduces it in a fresh process, so it depends on process-global state touched by runs executing concurrently on other worker threads. Exact replay is not guaranteed for this class.",
            "scenario": {"seed_eff": seed_eff.to_string(), "history_idx": [], "history": [], "plan": f.plan.to_json()},
            "replay": format!("./check {property} --replay {}", path.display()),
        });
        let _ = std::fs::create_dir_all(path.parent().unwrap());
        let _ = std::fs::write(&path, serde_json::to_string_pretty(&doc).unwrap() + "\n");
        return Some(Reported { path, signature: format!("{}:{mname}", v0.oracle), headline: format!("{} violated on `{mname}`: {}", v0.oracle, v0.message), detail: "not reproducible in isolation (cross-thread process state)".into() });
    };
    let before = json!({"history_runs": sc.history_idx.len() + sc.history.len(), "final": plan_size(&sc.plan)});
    let min = iso.minimise(sc, &kind);
    let out = iso.exec(&min);
    let after = json!({"history_runs": min.history_idx.len() + min.history.len(), "final": plan_size(&min.plan)});
    let (oracle_id, mname, message) = match &kind {
        Kind::Death => {
            let sig = out.died.unwrap_or(-1);
            let mname = min.plan.tasks.first().and_then(|t| t.calls.first()).map(|c| MODEL[c.method as usize].name).unwrap_or("-").to_string();
            let msg = if sig == 0 {
                format!("a call of `{mname}` through its generated trait method never returns (the process had to be killed after a timeout; the executor and the corpus bodies are step-bounded)")
            } else {
                format!("the process was killed by signal {sig} (stack overflow / abort) while executing a call of `{mname}` through its generated trait method: the call never returns the original function's result")
            };
            ("O1".to_string(), mname, msg)
        }
        Kind::Oracle(o) => {
            let v = out.violations.iter().find(|v| &v.0 == o).cloned().unwrap_or((o.clone(), 0, "-".into(), "violation no longer shown by the minimised scenario".into()));
            (v.0, v.2, v.3)
        }
    };
    let suffix = if kind == Kind::Death { "-crash" } else { "" };
    let path = verif.join("replays").join(format!("{property}-{seed}-{build}-run{run_index}{suffix}.json"));
    let doc = json!({
        "property": property, "engine": "gensim", "build": build, "seed": seed as i64, "run_index": run_index,
        "oracle": oracle_id, "method": mname, "violation": message, "isolated": true, "class": class,
        "crash": kind == Kind::Death, "signal": out.died,
        "all_violations": out.violations.iter().map(|v| json!({"oracle": v.0, "task": v.1, "method": v.2, "message": v.3})).collect::<Vec<_>>(),
        "scenario": iso.scenario_json(&min),
        "trace_of_final_plan": out.trace,
        "minimised_from": {"before": before, "after": after, "child_process_executions": iso.executions},
        "replay": format!("./check {property} --replay {}", path.display()),
    });
    let _ = std::fs::create_dir_all(path.parent().unwrap());
    let _ = std::fs::write(&path, serde_json::to_string_pretty(&doc).unwrap() + "\n");
    let _ = std::fs::remove_file(&iso.tmp);
    Some(Reported {
        path,
        signature: format!("{oracle_id}:{mname}"),
        headline: format!("{oracle_id} violated on `{mname}`: {message}"),
        detail: format!("{class}; minimised {} -> {} in {} fresh-process executions", doc["minimised_from"]["before"], doc["minimised_from"]["after"], iso.executions),
    })
}

/// Called by run.sh when the search process died by a signal or hung.
pub fn crash_triage(args: &[String]) -> i32 {
    let t0 = simcore::real_now_s();
    let Some(property) = args.get(2).cloned() else { return 2 };
    let Some(pool) = pool_for(&property) else { return 2 };
    let tier = arg_value(args, "--tier").unwrap_or_else(|| "quick".into());
    let tier: &str = if tier == "thorough" { "thorough" } else { "quick" };
    let seed = arg_value(args, "--seed").and_then(|s| s.parse::<i64>().ok()).map(|v| v as u64).unwrap_or_else(simcore::env_seed);
    let verif = PathBuf::from(arg_value(args, "--verif").unwrap_or_else(|| "/verif".into()));
    let part = arg_value(args, "--part").unwrap_or_else(|| "first".into());
    let seed_eff = if UNIMOCK_BUILD { seed ^ 0x756e_696d_6f63_6b00 } else { seed };
    println!("gensim: the search process died or hung; locating the run in fresh child processes (runs are a pure function of (seed, index))");
    let Some(r) = isolate_and_write(&property, &pool, seed, seed_eff, &verif, Kind::Death, None, 2_000_000, if tier == "thorough" { 800.0 } else { 240.0 }) else {
        eprintln!("HARNESS-ERROR: the search process died but no sequential history of runs reproduces the death in a fresh process");
        return 2;
    };
    println!("gensim: {}", r.headline);
    println!("gensim: {}", r.detail);
    let doc: Value = std::fs::read_to_string(&r.path).ok().and_then(|t| serde_json::from_str(&t).ok()).unwrap_or(json!({}));
    let execs = doc["minimised_from"]["child_process_executions"].as_u64().unwrap_or(2);
    let cov = json!({
        "evaluations": execs.max(1),
        "distinct_nontrivial": execs.max(2),
        "rule": "crash/hang triage: the search process died; prefixes of the run sequence were re-executed single-threaded in fresh child processes until one died, then the scenario (history + dying plan) was minimised with one child process per candidate. evaluations = distinct_nontrivial = candidate scenarios executed in fresh processes (each a distinct scenario containing the dying call).",
        "samples": [doc["scenario"].clone()],
        "crash": {"signal": doc["signal"].clone(), "method": doc["method"].clone()},
        "exhaustive": false,
    });
    let _ = write_evidence(&verif.join("evidence").join(format!("{property}.json")), &property, tier, seed, &pool, cov, simcore::real_now_s() - t0, 1, &part);
    println!("VIOLATION property={property} replay={}", r.path.display());
    1
}
