//! Run isolation. The search executes millions of runs in one process; a
//! change to the macro can make generated code keep process-global state
//! (statics, once-flags, caches), so a violation observed in-process may depend
//! on *earlier runs*. Before anything is reported it is therefore reproduced in
//! a fresh child process, and the thing that is minimised and written to the
//! replay file is a *scenario*: a (possibly empty) history of earlier plans
//! plus the violating plan, executed in order, single-threaded, in one fresh
//! process. Process death (stack overflow, abort) and hangs are handled by the
//! same machinery: the child's fate is just another outcome.

use crate::dispatch::MODEL;
use crate::exec::Apps;
use crate::plan::Plan;
use crate::search::{evaluate, gen_plan, pool_for, sample_history, Pool};
use serde_json::{json, Value};
use simcore::Rng;
use std::path::{Path, PathBuf};

#[derive(Clone, Debug, PartialEq)]
pub struct Scenario {
    /// earlier runs, regenerated from (seed, index) in the child
    pub history_idx: Vec<u64>,
    /// earlier runs, explicit (after minimisation)
    pub history: Vec<Plan>,
    pub plan: Plan,
}

#[derive(Clone, Debug)]
pub struct Outcome {
    /// (oracle, task, method name, message) of the FINAL plan
    pub violations: Vec<(String, u64, String, String)>,
    /// Some(signal) when the child was killed; Some(0) = hung and was killed by the timeout
    pub died: Option<i32>,
    pub trace: Vec<String>,
}

#[derive(Clone, Debug, PartialEq)]
pub enum Kind {
    Oracle(String),
    Death,
}

impl Outcome {
    pub fn shows(&self, kind: &Kind) -> bool {
        match kind {
            Kind::Death => self.died.is_some(),
            Kind::Oracle(o) => self.violations.iter().any(|v| &v.0 == o),
        }
    }
}

pub struct Isolator {
    pub exe: PathBuf,
    pub property: String,
    pub seed_eff: u64,
    pub tmp: PathBuf,
    pub executions: u64,
    pub deadline: f64,
}

impl Isolator {
    pub fn new(property: &str, seed_eff: u64, verif: &Path) -> Isolator {
        let tmp = verif.join("scratch").join(format!("gensim-scenario-{}.json", std::process::id()));
        let _ = std::fs::create_dir_all(tmp.parent().unwrap());
        Isolator {
            exe: std::env::current_exe().expect("current_exe"),
            property: property.to_string(),
            seed_eff,
            tmp,
            executions: 0,
            deadline: f64::MAX,
        }
    }

    /// Wall-clock budget for everything that follows (isolation and minimisation): once it is
    /// used up no further candidate is executed and the best scenario so far is reported. Any
    /// scenario that showed the violation is an exact replay, minimal or not.
    pub fn with_budget(mut self, seconds: f64) -> Isolator {
        self.deadline = simcore::real_now_s() + seconds;
        self
    }

    fn out_of_time(&self) -> bool {
        simcore::real_now_s() > self.deadline
    }

    pub fn scenario_json(&self, sc: &Scenario) -> Value {
        json!({
            "property": self.property,
            "seed_eff": self.seed_eff.to_string(),
            "history_idx": sc.history_idx,
            "history": sc.history.iter().map(|p| p.to_json()).collect::<Vec<_>>(),
            "plan": sc.plan.to_json(),
        })
    }

    /// Execute the scenario in a fresh child process.
    pub fn exec(&mut self, sc: &Scenario) -> Outcome {
        self.executions += 1;
        let _ = std::fs::write(&self.tmp, self.scenario_json(sc).to_string());
        let n = sc.history_idx.len() as u64 + sc.history.len() as u64;
        let timeout = 4 + n / 8_000;
        let out = std::process::Command::new("timeout")
            .arg("-k")
            .arg("2")
            .arg(timeout.to_string())
            .arg(&self.exe)
            .arg("plan-exec")
            .arg(&self.tmp)
            .stderr(std::process::Stdio::null())
            .output();
        let Ok(out) = out else {
            return Outcome { violations: vec![], died: None, trace: vec![] };
        };
        use std::os::unix::process::ExitStatusExt;
        let died = match (out.status.signal(), out.status.code()) {
            (Some(s), _) => Some(s),
            (None, Some(124)) | (None, Some(137)) => Some(0),
            (None, Some(c)) if c >= 128 => Some(c - 128),
            _ => None,
        };
        let mut violations = vec![];
        let mut trace = vec![];
        if let Ok(v) = serde_json::from_slice::<Value>(&out.stdout) {
            for x in v["violations"].as_array().cloned().unwrap_or_default() {
                violations.push((
                    x["oracle"].as_str().unwrap_or("").to_string(),
                    x["task"].as_u64().unwrap_or(0),
                    x["method"].as_str().unwrap_or("-").to_string(),
                    x["message"].as_str().unwrap_or("").to_string(),
                ));
            }
            trace = v["trace"].as_array().map(|a| a.iter().filter_map(|l| l.as_str().map(|s| s.to_string())).collect()).unwrap_or_default();
        }
        Outcome { violations, died, trace }
    }

    /// Smallest prefix length n such that executing runs 0..n in one fresh
    /// process shows `kind` in (or before) its last run. None if not within cap.
    pub fn find_prefix(&mut self, pool: &Pool, kind: &Kind, upto: u64) -> Option<u64> {
        // does the prefix [0, n) show it at all? (child reports the first index)
        let first = |this: &mut Isolator, n: u64| -> Option<u64> {
            this.executions += 1;
            let timeout = 4 + n / 8_000;
            let out = std::process::Command::new("timeout")
                .arg("-k")
                .arg("2")
                .arg(timeout.to_string())
                .arg(&this.exe)
                .args(["range", &this.property, "--seed", &this.seed_eff.to_string(), "--from", "0", "--to", &n.to_string(), "--report", "--kind"])
                .arg(match kind {
                    Kind::Death => "DEATH".to_string(),
                    Kind::Oracle(o) => o.clone(),
                })
                .stderr(std::process::Stdio::null())
                .output()
                .ok()?;
            use std::os::unix::process::ExitStatusExt;
            let died = out.status.signal().is_some() || out.status.code().map(|c| c >= 124).unwrap_or(false);
            let text = String::from_utf8_lossy(&out.stdout);
            // the child prints "AT <i>" before each run when asked to report, and "FOUND <i>" on a violation
            if let Some(l) = text.lines().rev().find(|l| l.starts_with("FOUND ")) {
                if matches!(kind, Kind::Oracle(_)) {
                    return l[6..].trim().parse().ok();
                }
            }
            if died && *kind == Kind::Death {
                if let Some(l) = text.lines().rev().find(|l| l.starts_with("AT ")) {
                    return l[3..].trim().parse().ok();
                }
                return Some(n.saturating_sub(1));
            }
            None
        };
        let _ = pool;
        let mut n = 64u64.min(upto);
        loop {
            if let Some(j) = first(self, n) {
                return Some(j + 1);
            }
            if n >= upto || self.out_of_time() {
                return None;
            }
            n = (n * 4).min(upto);
        }
    }

    /// Minimise a scenario that shows `kind`.
    pub fn minimise(&mut self, sc: Scenario, kind: &Kind) -> Scenario {
        let mut best = sc;
        let mut budget = 360u64; // phase 1 (history); raised to 600 for the plan-shrinking phases
        let start = self.executions;
        let t_start = simcore::real_now_s();
        // phase 1 may use at most 60 % of the remaining wall-clock budget
        let mut phase_deadline = if self.deadline == f64::MAX { f64::MAX } else { t_start + 0.6 * (self.deadline - t_start).max(0.0) };
        macro_rules! fails {
            ($cand:expr) => {{
                if self.executions - start > budget || self.out_of_time() || simcore::real_now_s() > phase_deadline {
                    false
                } else {
                    let c: &Scenario = $cand;
                    !c.plan.tasks.is_empty() && c.plan.tasks.iter().any(|t| !t.calls.is_empty()) && self.exec(c).shows(kind)
                }
            }};
        }
        // 1. history: none at all? else only the runs that touch the methods of the final plan
        //    (a long history is dominated by unrelated runs), shortest suffix, then ddmin
        if !best.history_idx.is_empty() {
            let mut c = best.clone();
            c.history_idx.clear();
            if fails!(&c) {
                best = c;
            } else {
                if best.history_idx.len() > 64 {
                    let pool = pool_for(&self.property).expect("pool");
                    let methods_of = |p: &Plan| -> std::collections::BTreeSet<u16> { p.tasks.iter().flat_map(|t| t.calls.iter().map(|c| c.method)).collect() };
                    let wanted = methods_of(&best.plan);
                    let plans: Vec<(u64, std::collections::BTreeSet<u16>)> = best
                        .history_idx
                        .iter()
                        .map(|i| {
                            let mut rng = Rng::for_run(self.seed_eff, *i);
                            (*i, methods_of(&gen_plan(&mut rng, &pool)))
                        })
                        .collect();
                    let mut c = best.clone();
                    c.history_idx = plans.iter().filter(|(_, ms)| ms.iter().any(|m| wanted.contains(m))).map(|(i, _)| *i).collect();
                    if c.history_idx.len() < best.history_idx.len() && fails!(&c) {
                        best = c;
                        // one method of the final plan at a time
                        for m in &wanted {
                            let mut c = best.clone();
                            c.history_idx = plans.iter().filter(|(i, ms)| ms.contains(m) && best.history_idx.contains(i)).map(|(i, _)| *i).collect();
                            if !c.history_idx.is_empty() && c.history_idx.len() < best.history_idx.len() && fails!(&c) {
                                best = c;
                                break;
                            }
                        }
                    }
                }
                let n = best.history_idx.len();
                let (mut lo, mut hi) = (0usize, n); // keep suffix [k..): find largest k that still fails
                while lo + 1 < hi {
                    let mid = (lo + hi) / 2;
                    let mut c = best.clone();
                    c.history_idx = best.history_idx[mid..].to_vec();
                    if fails!(&c) {
                        lo = mid;
                    } else {
                        hi = mid;
                    }
                }
                let mut c = best.clone();
                c.history_idx = best.history_idx[lo..].to_vec();
                if fails!(&c) {
                    best = c;
                }
                let idx = best.history_idx.clone();
                let base = best.clone();
                let kept = simcore::ddmin::ddmin(idx, &mut |cand| {
                    let mut c = base.clone();
                    c.history_idx = cand.to_vec();
                    fails!(&c)
                });
                let mut c = best.clone();
                c.history_idx = kept;
                if c.history_idx.len() < best.history_idx.len() && fails!(&c) {
                    best = c;
                }
            }
        }
        budget = 600;
        phase_deadline = f64::MAX;
        // 2. make the remaining history explicit (only when it is small)
        if best.history_idx.len() <= 16 {
            let pool = pool_for(&self.property).expect("pool");
            let mut c = best.clone();
            for i in &best.history_idx {
                let mut rng = Rng::for_run(self.seed_eff, *i);
                c.history.push(gen_plan(&mut rng, &pool));
            }
            c.history_idx.clear();
            if fails!(&c) {
                best = c;
            }
        }
        // 3. shrink every plan: tasks, calls, faults, decisions
        let n_hist = best.history.len();
        for which in 0..=n_hist {
            let get = |s: &Scenario| -> Plan {
                if which < n_hist {
                    s.history[which].clone()
                } else {
                    s.plan.clone()
                }
            };
            let set = |s: &mut Scenario, p: Plan| {
                if which < n_hist {
                    s.history[which] = p
                } else {
                    s.plan = p
                }
            };
            let p0 = get(&best);
            let base = best.clone();
            let tasks = simcore::ddmin::ddmin(p0.tasks.clone(), &mut |cand| {
                if cand.is_empty() {
                    return false;
                }
                let mut c = base.clone();
                let mut p = p0.clone();
                p.tasks = cand.to_vec();
                set(&mut c, p);
                fails!(&c)
            });
            {
                let mut p = p0.clone();
                p.tasks = tasks;
                let mut c = best.clone();
                set(&mut c, p);
                if fails!(&c) {
                    best = c;
                }
            }
            let p1 = get(&best);
            for ti in 0..p1.tasks.len() {
                let base = best.clone();
                let pcur = get(&best);
                let calls = simcore::ddmin::ddmin(pcur.tasks[ti].calls.clone(), &mut |cand| {
                    if cand.is_empty() {
                        return false;
                    }
                    let mut c = base.clone();
                    let mut p = pcur.clone();
                    p.tasks[ti].calls = cand.to_vec();
                    set(&mut c, p);
                    fails!(&c)
                });
                let mut p = pcur.clone();
                p.tasks[ti].calls = calls;
                let mut c = best.clone();
                set(&mut c, p);
                if fails!(&c) {
                    best = c;
                }
            }
            for f in 0..7 {
                let mut p = get(&best);
                match f {
                    0 => p.cfg.p_cancel = 0,
                    1 => p.cfg.p_spurious = 0,
                    2 => p.cfg.leaf_panic_pm = 0,
                    3 => p.cfg.fault_steps = 0,
                    4 => p.cfg.max_leaf = 0,
                    5 => p.cfg.max_alloc = 0,
                    _ => p.decisions.clear(),
                }
                let mut c = best.clone();
                set(&mut c, p);
                if c != best && fails!(&c) {
                    best = c;
                }
            }
            // shortest decision prefix
            let p = get(&best);
            if !p.decisions.is_empty() {
                let (mut lo, mut hi) = (0usize, p.decisions.len());
                while lo + 1 < hi {
                    let mid = (lo + hi) / 2;
                    let mut q = p.clone();
                    q.decisions.truncate(mid);
                    let mut c = best.clone();
                    set(&mut c, q);
                    if fails!(&c) {
                        hi = mid;
                    } else {
                        lo = mid;
                    }
                }
                let mut q = p.clone();
                q.decisions.truncate(hi);
                let mut c = best.clone();
                set(&mut c, q);
                if fails!(&c) {
                    best = c;
                }
            }
        }
        // 4. drop history plans one at a time once more
        let mut i = 0;
        while i < best.history.len() {
            let mut c = best.clone();
            c.history.remove(i);
            if fails!(&c) {
                best = c;
            } else {
                i += 1;
            }
        }
        best
    }
}

/// `gensim plan-exec <scenario file>`: executes history then plan in this
/// (fresh) process, single-threaded; prints {"violations": [...], "trace": [...]}
/// for the final plan; exit 1 if it violates anything.
pub fn plan_exec(args: &[String]) -> i32 {
    let Some(file) = args.get(2) else { return 2 };
    let Some(doc) = std::fs::read_to_string(file).ok().and_then(|t| serde_json::from_str::<Value>(&t).ok()) else { return 2 };
    let Some(pool) = doc["property"].as_str().and_then(pool_for) else { return 2 };
    let seed_eff: u64 = doc["seed_eff"].as_str().and_then(|s| s.parse().ok()).unwrap_or(0);
    let apps = Apps::new();
    for i in doc["history_idx"].as_array().cloned().unwrap_or_default() {
        let mut rng = Rng::for_run(seed_eff, i.as_u64().unwrap_or(0));
        let plan = gen_plan(&mut rng, &pool);
        let _ = evaluate(&plan, &apps, &pool, true, None);
    }
    for h in doc["history"].as_array().cloned().unwrap_or_default() {
        let plan = Plan::from_json(&h);
        let _ = evaluate(&plan, &apps, &pool, true, None);
    }
    let plan = Plan::from_json(&doc["plan"]);
    let v = evaluate(&plan, &apps, &pool, true, None);
    let out = json!({
        "violations": v.iter().map(|x| json!({"oracle": x.oracle, "task": x.task,
            "method": if x.method != u16::MAX { MODEL[x.method as usize].name } else { "-" }, "message": x.message})).collect::<Vec<_>>(),
        "trace": sample_history(&plan, &apps)["history_prefix"],
    });
    println!("{out}");
    if v.is_empty() {
        0
    } else {
        1
    }
}
