//! History oracles. Each follows from a property statement alone:
//!  O1 exactly-once / own function / receiver / argument order / result
//!     (C01, C06, C07, C11) — a per-task grammar over the recorded history;
//!  O2 at-most-once under cancellation and panics, nothing after the drop;
//!  O3 conservation of moved arguments (dropped exactly once if constructed);
//!  O5 allocations inside every window equal the declared user allocations
//!     on statically delegated tasks (C14), and equal the direct twin's;
//!  O6 bounded liveness once faults stop (no lost wake-up).
//! Poll counts and drop order are never asserted.

use crate::dispatch::MODEL;
use crate::exec::{RunResult, TaskEnd};
use crate::plan::Plan;
use crate::sim::Ev;
use std::collections::BTreeMap;

#[derive(Clone, Debug, PartialEq)]
pub struct Violation {
    pub oracle: &'static str,
    pub task: u8,
    /// outermost method of the call the violation belongs to (u16::MAX: none)
    pub method: u16,
    pub message: String,
}

struct Open {
    method: u16,
    recv: usize,
    n: u8,
    args: [u64; crate::sim::MAX_ARGS],
    flavor: u8,
    entered: Option<u16>,
    result: Option<u64>,
    lookups: u32,
    last_lookup_kind: u16,
}

fn app_index(app: u8) -> usize {
    if app == 1 {
        1
    } else {
        0
    }
}

pub fn check_history(plan: &Plan, r: &RunResult) -> Vec<Violation> {
    let mut out = vec![];
    let n = plan.tasks.len();
    let mut stacks: Vec<Vec<Open>> = (0..n).map(|_| vec![]).collect();
    let mut closed = vec![false; n]; // after CancelDone: no further events
    let mut abandoned = vec![false; n]; // threaded sync task left to run to completion, unjudged
    let mut cancelling = vec![false; n];
    let mut constructs: BTreeMap<u64, i64> = BTreeMap::new();
    let mut completed_calls = vec![0usize; n];

    let outer = |stack: &Vec<Open>| stack.first().map(|o| o.method).unwrap_or(u16::MAX);

    for ev in &r.events {
        let task = match ev {
            Ev::CallStart { task, .. }
            | Ev::Enter { task, .. }
            | Ev::Exit { task, .. }
            | Ev::CallEnd { task, .. }
            | Ev::Lookup { task, .. }
            | Ev::Construct { task, .. }
            | Ev::Drop { task, .. }
            | Ev::PollStart { task }
            | Ev::PollEnd { task, .. }
            | Ev::LeafPending { task }
            | Ev::Wake { task }
            | Ev::Cancel { task }
            | Ev::CancelDone { task }
            | Ev::Panicked { task, .. }
            | Ev::Mark { task, .. }
            | Ev::SyncStart { task }
            | Ev::Abandoned { task }
            | Ev::SyncEnd { task, .. } => *task as usize,
        };
        if task >= n {
            continue;
        }
        if let Ev::Mark { .. } = ev {
            continue; // judged against the direct-call twin only
        }
        let app = plan.tasks[task].app;
        let ai = app_index(app);
        if let Ev::Abandoned { .. } = ev {
            abandoned[task] = true;
            stacks[task].clear();
            continue;
        }
        if abandoned[task] {
            match ev {
                Ev::Construct { id, .. } => *constructs.entry(*id).or_default() += 1,
                Ev::Drop { id, .. } => *constructs.entry(*id).or_default() -= 1,
                _ => {}
            }
            continue;
        }
        let stack = &mut stacks[task];
        if closed[task] {
            match ev {
                Ev::Drop { .. } | Ev::Wake { .. } => {}
                _ => out.push(Violation {
                    oracle: "O2",
                    task: task as u8,
                    method: u16::MAX,
                    message: format!("event after the task's future was dropped: {ev:?}"),
                }),
            }
            if let Ev::Drop { id, .. } = ev {
                *constructs.entry(*id).or_default() -= 1;
            }
            continue;
        }
        if cancelling[task] {
            match ev {
                Ev::Drop { .. } | Ev::SyncEnd { .. } | Ev::CancelDone { .. } | Ev::Wake { .. } => {}
                _ => out.push(Violation {
                    oracle: "O2",
                    task: task as u8,
                    method: outer(stack),
                    message: format!("user-visible activity while the cancelled future was being dropped: {ev:?}"),
                }),
            }
        }
        match ev {
            Ev::CallStart { method, recv, n, args, flavor, .. } => stack.push(Open {
                method: *method,
                recv: *recv,
                n: *n,
                args: *args,
                flavor: *flavor,
                entered: None,
                result: None,
                lookups: 0,
                last_lookup_kind: 0,
            }),
            Ev::Lookup { kind, .. } => {
                if let Some(top) = stack.last_mut() {
                    if top.entered.is_none() {
                        top.lookups += 1;
                        top.last_lookup_kind = *kind;
                    }
                }
            }
            Ev::Enter { fn_id, recv, n: en, args, .. } => {
                let om = outer(stack);
                match stack.last_mut() {
                    None => out.push(Violation {
                        oracle: "O1",
                        task: task as u8,
                        method: u16::MAX,
                        message: format!("function {fn_id} entered although no call was in progress"),
                    }),
                    Some(top) => {
                        let m = &MODEL[top.method as usize];
                        if top.entered.is_some() {
                            out.push(Violation {
                                oracle: "O1",
                                task: task as u8,
                                method: om,
                                message: format!(
                                    "call of `{}` entered function {fn_id} after it had already entered function {} (not exactly once)",
                                    m.name,
                                    top.entered.unwrap()
                                ),
                            });
                        } else {
                            top.entered = Some(*fn_id);
                            if top.flavor == 2 {
                                out.push(Violation {
                                    oracle: "O1",
                                    task: task as u8,
                                    method: om,
                                    message: format!(
                                        "`{}` is not un-mockable (concrete dependency or entraited trait), yet the partial mock ran function {fn_id} instead of refusing the call",
                                        m.name
                                    ),
                                });
                            }
                            if top.flavor == 1 {
                                out.push(Violation {
                                    oracle: "O1",
                                    task: task as u8,
                                    method: om,
                                    message: format!("`{}`: the original function ran although the returned future was never polled", m.name),
                                });
                            }
                            if *fn_id != m.fn_id[ai] {
                                out.push(Violation {
                                    oracle: "O1",
                                    task: task as u8,
                                    method: om,
                                    message: format!("`{}` reached function {fn_id}, expected its own function {}", m.name, m.fn_id[ai]),
                                });
                            } else {
                                if *recv != top.recv {
                                    out.push(Violation {
                                        oracle: "O1",
                                        task: task as u8,
                                        method: om,
                                        message: format!("`{}`: dependency argument {recv:#x} is not the receiver {:#x}", m.name, top.recv),
                                    });
                                }
                                if *en != top.n || args[..*en as usize] != top.args[..top.n as usize] {
                                    out.push(Violation {
                                        oracle: "O1",
                                        task: task as u8,
                                        method: om,
                                        message: format!(
                                            "`{}`: function received arguments {:?}, caller passed {:?}",
                                            m.name,
                                            &args[..*en as usize],
                                            &top.args[..top.n as usize]
                                        ),
                                    });
                                }
                                if top.lookups != m.lookups as u32 || (m.lookups > 0 && top.last_lookup_kind != m.lookup_kind) {
                                    out.push(Violation {
                                        oracle: "O1",
                                        task: task as u8,
                                        method: om,
                                        message: format!(
                                            "`{}`: {} provider lookups (kind {}) before the call, expected {} (kind {})",
                                            m.name, top.lookups, top.last_lookup_kind, m.lookups, m.lookup_kind
                                        ),
                                    });
                                }
                            }
                        }
                    }
                }
            }
            Ev::Exit { fn_id, result, .. } => {
                let om = outer(stack);
                match stack.last_mut() {
                    Some(top) if top.entered == Some(*fn_id) && top.result.is_none() => top.result = Some(*result),
                    _ => out.push(Violation {
                        oracle: "O1",
                        task: task as u8,
                        method: om,
                        message: format!("function {fn_id} returned outside of its own call"),
                    }),
                }
            }
            Ev::CallEnd { method, ret, .. } => {
                let om = outer(stack);
                match stack.pop() {
                    Some(top) if top.method == *method => {
                        let m = &MODEL[top.method as usize];
                        if top.flavor == 0 {
                            match (top.entered, top.result) {
                                (Some(_), Some(res)) => {
                                    if !m.ret_unit && res != *ret {
                                        out.push(Violation {
                                            oracle: "O1",
                                            task: task as u8,
                                            method: om,
                                            message: format!("`{}` returned {ret}, the original function returned {res}", m.name),
                                        });
                                    }
                                }
                                _ => out.push(Violation {
                                    oracle: "O1",
                                    task: task as u8,
                                    method: om,
                                    message: format!("`{}` returned without running the original function to completion", m.name),
                                }),
                            }
                        }
                        if stack.is_empty() {
                            completed_calls[task] += 1;
                        }
                    }
                    _ => out.push(Violation {
                        oracle: "O1",
                        task: task as u8,
                        method: om,
                        message: format!("call of method {method} ended out of order"),
                    }),
                }
            }
            Ev::Construct { id, .. } => {
                *constructs.entry(*id).or_default() += 1;
            }
            Ev::Drop { id, .. } => {
                let c = constructs.entry(*id).or_default();
                *c -= 1;
                if *c < 0 {
                    out.push(Violation {
                        oracle: "O3",
                        task: task as u8,
                        method: outer(stack),
                        message: format!("moved argument {id} dropped more often than it was constructed"),
                    });
                }
            }
            Ev::Cancel { .. } => cancelling[task] = true,
            Ev::Panicked { .. } => cancelling[task] = true,
            Ev::CancelDone { .. } => {
                cancelling[task] = false;
                closed[task] = true;
            }
            _ => {}
        }
    }
    // end-of-run checks
    for t in 0..n {
        match r.ends[t] {
            TaskEnd::Completed => {
                if !stacks[t].is_empty() || completed_calls[t] != plan.tasks[t].calls.len() {
                    out.push(Violation {
                        oracle: "O1",
                        task: t as u8,
                        method: stacks[t].first().map(|o| o.method).unwrap_or(u16::MAX),
                        message: format!(
                            "task completed with {} of {} calls finished",
                            completed_calls[t],
                            plan.tasks[t].calls.len()
                        ),
                    });
                }
            }
            TaskEnd::Stuck => out.push(Violation {
                oracle: "O6",
                task: t as u8,
                method: stacks[t].first().map(|o| o.method).unwrap_or(u16::MAX),
                message: if r.lost_wakeup {
                    "lost wake-up: the call is unfinished, nothing is woken and no wake is pending".to_string()
                } else {
                    "the call did not finish within the poll budget after faults stopped".to_string()
                },
            }),
            TaskEnd::Cancelled | TaskEnd::Panicked => {}
        }
    }
    for (id, c) in &constructs {
        if *c > 0 {
            out.push(Violation {
                oracle: "O3",
                task: 0,
                method: u16::MAX,
                message: format!("moved argument {id} was constructed but never dropped (leaked)"),
            });
        }
    }
    if let Some(msg) = &r.foreign_panic {
        out.push(Violation {
            oracle: "O1",
            task: 0,
            method: u16::MAX,
            message: format!("a call panicked on its own: {msg}"),
        });
    }
    out
}

/// O5 (C14): on tasks that use static delegation only, every window's
/// allocation count equals the declared user allocations.
pub fn check_allocs(plan: &Plan, r: &RunResult) -> Vec<Violation> {
    let mut out = vec![];
    let static_task: Vec<bool> = plan
        .tasks
        .iter()
        .map(|t| t.app != 2 && t.calls.iter().all(|c| !MODEL[c.method as usize].dynamic))
        .collect();
    let mut polls = vec![0u32; plan.tasks.len()];
    for ev in &r.events {
        match ev {
            Ev::PollEnd { task, allocs, declared, .. } | Ev::SyncEnd { task, allocs, declared } => {
                let t = *task as usize;
                polls[t] += 1;
                if *allocs == u32::MAX {
                    continue; // window ended in an injected panic: not measured
                }
                if t < static_task.len() && static_task[t] && allocs != declared {
                    out.push(Violation {
                        oracle: "O5",
                        task: *task,
                        method: plan.tasks[t].calls.first().map(|c| c.method).unwrap_or(u16::MAX),
                        message: format!(
                            "window {} of a statically delegated task performed {allocs} heap allocations, the user code declared {declared}",
                            polls[t]
                        ),
                    });
                }
            }
            _ => {}
        }
    }
    out
}

/// Allocation counts seen on tasks where dynamic dispatch was requested
/// (sensitivity witness; never asserted).
pub fn dynamic_alloc_excess(plan: &Plan, r: &RunResult) -> u64 {
    let mut excess = 0u64;
    for ev in &r.events {
        if let Ev::PollEnd { task, allocs, declared, .. } = ev {
            let t = *task as usize;
            if *allocs != u32::MAX && t < plan.tasks.len() && plan.tasks[t].calls.iter().any(|c| MODEL[c.method as usize].dynamic) && allocs > declared {
                excess += (*allocs - *declared) as u64;
            }
        }
    }
    excess
}

/// Twin comparison (trait path vs direct path, or mock path vs Impl path):
/// only meaningful when both executions were polled identically.
pub enum Twin {
    Same,
    Misaligned,
    Differs(String),
}

pub fn compare_twin(a: &RunResult, b: &RunResult, compare_allocs: &[bool], compare_recv: bool, compare_history: bool) -> Twin {
    let shape = |r: &RunResult| -> Vec<(u8, bool, u32)> {
        r.events
            .iter()
            .filter_map(|e| match e {
                Ev::PollEnd { task, ready, leaf_pendings, .. } => Some((*task, *ready, *leaf_pendings)),
                Ev::Cancel { task } => Some((*task, false, u32::MAX)),
                _ => None,
            })
            .collect()
    };
    if shape(a) != shape(b) {
        return Twin::Misaligned;
    }
    let proj = |r: &RunResult| -> Vec<String> {
        r.events
            .iter()
            .filter_map(|e| match e {
                Ev::Enter { task, fn_id, recv, n, args } => Some(format!(
                    "t{task} enter f{fn_id} {} {:?}",
                    if compare_recv { format!("{recv:#x}") } else { String::new() },
                    &args[..*n as usize]
                )),
                Ev::Exit { task, fn_id, result } => Some(format!("t{task} exit f{fn_id} -> {result}")),
                Ev::CallEnd { task, method, ret } => Some(format!("t{task} callend m{method} -> {ret}")),
                Ev::Panicked { task, .. } => Some(format!("t{task} panicked")),
                Ev::Mark { task, fn_id, addr } => Some(format!("t{task} f{fn_id} ran with its function-local state at {addr:#x}")),
                _ => None,
            })
            .collect()
    };
    let (pa, pb) = (proj(a), proj(b));
    if compare_history && pa != pb {
        let i = pa.iter().zip(&pb).position(|(x, y)| x != y).unwrap_or(pa.len().min(pb.len()));
        return Twin::Differs(format!(
            "history differs from the twin at event {i}: {:?} vs {:?}",
            pa.get(i),
            pb.get(i)
        ));
    }
    // drops as multisets
    let drops = |r: &RunResult| -> BTreeMap<u64, i64> {
        let mut m = BTreeMap::new();
        for e in &r.events {
            if let Ev::Drop { id, .. } = e {
                *m.entry(*id).or_default() += 1;
            }
        }
        m
    };
    if compare_history && drops(a) != drops(b) {
        return Twin::Differs("the set of dropped moved arguments differs from the twin".into());
    }
    let allocs = |r: &RunResult| -> Vec<(u8, u32)> {
        r.events
            .iter()
            .filter_map(|e| match e {
                Ev::PollEnd { task, allocs, .. } | Ev::SyncEnd { task, allocs, .. } => Some((*task, *allocs)),
                _ => None,
            })
            .collect()
    };
    let unwinds = |r: &RunResult| -> Vec<(u8, u32)> {
        r.events
            .iter()
            .filter_map(|e| match e {
                Ev::Panicked { task, allocs } => Some((*task, *allocs)),
                _ => None,
            })
            .collect()
    };
    for ((ta, xa), (_, xb)) in unwinds(a).into_iter().zip(unwinds(b)) {
        if compare_allocs.get(ta as usize).copied().unwrap_or(false) && xa != xb {
            return Twin::Differs(format!(
                "task {ta}: a window that ended in an unwind performed {xa} heap allocations through the generated trait, {xb} when calling the function directly"
            ));
        }
    }
    for ((ta, xa), (_, xb)) in allocs(a).into_iter().zip(allocs(b)) {
        if compare_allocs.get(ta as usize).copied().unwrap_or(false) && xa != xb {
            return Twin::Differs(format!(
                "task {ta}: a window performed {xa} heap allocations through the generated trait, {xb} when calling the function directly"
            ));
        }
    }
    Twin::Same
}
