//! gensim — deterministic simulation of entrait-generated code at run time
//! (DESIGN.md §4). Decides C01, C06, C07, C11 (un-mock clause) and C14
//! (allocation) over a fixed corpus compiled with the shipped proc-macro from
//! /repo's working tree.

mod corpus;
mod dispatch;
mod exec;
mod isolate;
mod oracle;
mod plan;
mod search;
mod sim;

#[global_allocator]
static ALLOC: sim::CountingAlloc = sim::CountingAlloc;

fn main() {
    let args: Vec<String> = std::env::args().collect();
    std::panic::set_hook(Box::new(|_| {}));
    dispatch::assert_bundles();
    let code = match args.get(1).map(|s| s.as_str()) {
        Some("check") => search::check(&args),
        Some("replay") => search::replay(&args),
        Some("range") => search::range(&args),
        Some("plan-exec") => isolate::plan_exec(&args),
        Some("crash-triage") => search::crash_triage(&args),
        Some("model") => {
            for m in dispatch::MODEL {
                println!("{:3} {:14} {:10} async={} dynamic={} fn={:?} nfp={} props={:?}", m.id, m.name, m.section, m.is_async, m.dynamic, m.fn_id, m.nfp, m.props);
            }
            0
        }
        _ => {
            eprintln!("usage: gensim check <ID> --tier quick|thorough | replay <file> | model");
            2
        }
    };
    std::process::exit(code);
}
