//! The explicit plan of one simulated run of generated code: tasks (short
//! programs of calls through generated trait methods), the fault/schedule
//! configuration and the decision list every choice is drawn from.

use serde_json::{json, Value};

#[derive(Clone, Debug, PartialEq)]
pub struct CallPlan {
    pub method: u16,
    pub vals: [u64; 16],
    /// 0: call and (for async) await; 1: create the future and drop it unpolled
    pub flavor: u8,
}

#[derive(Clone, Debug, PartialEq)]
pub struct TaskPlan {
    /// 0 = Impl<AppA>, 1 = Impl<AppB>, 2 = a clone of the run's partial Unimock
    pub app: u8,
    pub calls: Vec<CallPlan>,
    /// run this (sync-only) task on its own parked OS thread, released one
    /// run-segment at a time, so that sync calls overlap deterministically
    pub threaded: bool,
}

#[derive(Clone, Debug, PartialEq)]
pub struct RunCfg {
    pub max_leaf: u32,
    pub max_alloc: u32,
    pub leaf_panic_pm: u32,
    /// per mille, per scheduler step, while faults are on
    pub p_deliver: u32,
    pub p_cancel: u32,
    pub p_spurious: u32,
    /// scheduler steps during which faults may be injected; afterwards the
    /// run is drained fault-free (bounded liveness)
    pub fault_steps: u32,
}

#[derive(Clone, Debug, PartialEq)]
pub struct Plan {
    pub tasks: Vec<TaskPlan>,
    pub cfg: RunCfg,
    pub decisions: Vec<u32>,
}

impl Plan {
    pub fn to_json(&self) -> Value {
        json!({
            "tasks": self.tasks.iter().map(|t| json!({
                "app": t.app,
                "threaded": t.threaded,
                "calls": t.calls.iter().map(|c| json!({
                    "method": c.method,
                    "name": crate::dispatch::MODEL[c.method as usize].name,
                    "vals": c.vals.to_vec(),
                    "flavor": c.flavor,
                })).collect::<Vec<_>>(),
            })).collect::<Vec<_>>(),
            "cfg": {
                "max_leaf": self.cfg.max_leaf, "max_alloc": self.cfg.max_alloc,
                "leaf_panic_pm": self.cfg.leaf_panic_pm, "p_deliver": self.cfg.p_deliver,
                "p_cancel": self.cfg.p_cancel, "p_spurious": self.cfg.p_spurious,
                "fault_steps": self.cfg.fault_steps,
            },
            "decisions": self.decisions,
        })
    }

    pub fn from_json(v: &Value) -> Plan {
        let u = |x: &Value| x.as_u64().unwrap_or(0);
        Plan {
            tasks: v["tasks"]
                .as_array()
                .map(|a| {
                    a.iter()
                        .map(|t| TaskPlan {
                            app: u(&t["app"]) as u8,
                            threaded: t["threaded"].as_bool().unwrap_or(false),
                            calls: t["calls"]
                                .as_array()
                                .map(|cs| {
                                    cs.iter()
                                        .map(|c| {
                                            let mut vals = [0u64; 16];
                                            if let Some(vs) = c["vals"].as_array() {
                                                for (i, x) in vs.iter().take(16).enumerate() {
                                                    vals[i] = u(x);
                                                }
                                            }
                                            CallPlan {
                                                method: u(&c["method"]) as u16,
                                                vals,
                                                flavor: u(&c["flavor"]) as u8,
                                            }
                                        })
                                        .collect()
                                })
                                .unwrap_or_default(),
                        })
                        .collect()
                })
                .unwrap_or_default(),
            cfg: RunCfg {
                max_leaf: u(&v["cfg"]["max_leaf"]) as u32,
                max_alloc: u(&v["cfg"]["max_alloc"]) as u32,
                leaf_panic_pm: u(&v["cfg"]["leaf_panic_pm"]) as u32,
                p_deliver: u(&v["cfg"]["p_deliver"]) as u32,
                p_cancel: u(&v["cfg"]["p_cancel"]) as u32,
                p_spurious: u(&v["cfg"]["p_spurious"]) as u32,
                fault_steps: u(&v["cfg"]["fault_steps"]) as u32,
            },
            decisions: v["decisions"]
                .as_array()
                .map(|a| a.iter().map(|x| u(x) as u32).collect())
                .unwrap_or_default(),
        }
    }
}
