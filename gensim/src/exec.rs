//! The deterministic executor: a single scheduler loop over the run's tasks.
//! Every choice (which task is polled, wake delivery and delay, spurious
//! polls, cancellation) is drawn from the plan's decision list; leaf futures
//! never wake themselves, the scheduler delivers their wakes.

use crate::corpus::{AppA, AppB};
use crate::dispatch::{self, MODEL};
use crate::plan::{CallPlan, Plan};
use crate::sim::{self, Ev, RunCtx};
use entrait::Impl;
use std::future::Future;
use std::panic::{catch_unwind, AssertUnwindSafe};
use std::pin::Pin;
use std::sync::Arc;
use std::task::{Context, Poll, Wake, Waker};

pub struct Apps {
    pub a: &'static Impl<AppA>,
    pub b: &'static Impl<AppB>,
}

impl Apps {
    pub fn new() -> Apps {
        Apps {
            a: Box::leak(Box::new(Impl::new(AppA::new()))),
            b: Box::leak(Box::new(Impl::new(AppB::new()))),
        }
    }
}

struct TaskWaker {
    idx: u8,
}

impl Wake for TaskWaker {
    fn wake(self: Arc<Self>) {
        self.wake_by_ref()
    }
    fn wake_by_ref(self: &Arc<Self>) {
        let idx = self.idx;
        sim::with_ctx(|c| {
            c.pending_wakes.push(idx);
            c.events.push(Ev::Wake { task: idx });
        });
    }
}

async fn task_a(app: &'static Impl<AppA>, calls: Vec<CallPlan>, direct: bool) {
    for c in &calls {
        if MODEL[c.method as usize].is_async {
            dispatch::call_async_a(app, c.method, &c.vals, direct, c.flavor).await;
        } else {
            dispatch::call_sync_a(app, c.method, &c.vals, direct, c.flavor);
        }
    }
}

async fn task_b(app: &'static Impl<AppB>, calls: Vec<CallPlan>, direct: bool) {
    for c in &calls {
        if MODEL[c.method as usize].is_async {
            dispatch::call_async_b(app, c.method, &c.vals, direct, c.flavor).await;
        } else {
            dispatch::call_sync_b(app, c.method, &c.vals, direct, c.flavor);
        }
    }
}

#[cfg(feature = "unimock")]
async fn task_mock(mock: unimock::Unimock, calls: Vec<CallPlan>) {
    for c in &calls {
        if MODEL[c.method as usize].is_async {
            dispatch::call_async_mock(&mock, c.method, &c.vals, false, c.flavor).await;
        } else {
            dispatch::call_sync_mock(&mock, c.method, &c.vals, false, c.flavor);
        }
    }
}

type TaskFut = Pin<Box<dyn Future<Output = ()>>>;

struct CtxPtr(*mut RunCtx);
// SAFETY: the run context is only ever touched by the one simulated task the
// scheduler has released; hand-offs go through channels.
unsafe impl Send for CtxPtr {}

/// A sync-only task running on its own parked OS thread, seen by the executor
/// as a future: a poll releases the thread for one run segment (up to the next
/// `sim::sync_point` or the end), a yield shows up as Pending with a wake.
struct ThreadedTask {
    task: u8,
    go: std::sync::mpsc::Sender<()>,
    ev: std::sync::mpsc::Receiver<sim::ThreadEv>,
    handle: Option<std::thread::JoinHandle<()>>,
    finished: bool,
}

impl ThreadedTask {
    fn spawn(task: u8, ctx: *mut RunCtx, body: Box<dyn FnOnce() + Send>) -> ThreadedTask {
        let (go_tx, go_rx) = std::sync::mpsc::channel::<()>();
        let (ev_tx, ev_rx) = std::sync::mpsc::channel::<sim::ThreadEv>();
        let ctx = CtxPtr(ctx);
        let handle = std::thread::spawn(move || {
            let ctx = ctx;
            if go_rx.recv().is_err() {
                return;
            }
            sim::install(ctx.0);
            sim::set_yielder(Some((ev_tx.clone(), go_rx)));
            sim::window_open_local();
            let r = catch_unwind(AssertUnwindSafe(body));
            let allocs = sim::window_close_local();
            sim::set_yielder(None);
            let msg = match r {
                Ok(()) => None,
                Err(p) => {
                    let m = panic_message(&p);
                    sim::masked(|| drop(p));
                    Some(m)
                }
            };
            sim::uninstall();
            let _ = match msg {
                None => ev_tx.send(sim::ThreadEv::Done { allocs }),
                Some(message) => ev_tx.send(sim::ThreadEv::Panicked { allocs, message }),
            };
        });
        ThreadedTask { task, go: go_tx, ev: ev_rx, handle: Some(handle), finished: false }
    }
}

impl Future for ThreadedTask {
    type Output = ();
    fn poll(mut self: Pin<&mut Self>, cx: &mut Context<'_>) -> Poll<()> {
        let _ = sim::masked(|| self.go.send(()));
        match sim::masked(|| self.ev.recv()) {
            Ok(sim::ThreadEv::Parked { allocs }) => {
                sim::add_allocs(allocs);
                sim::with_ctx(|c| {
                    c.leaf_pendings_in_poll += 1;
                    let task = c.current_task;
                    c.events.push(Ev::LeafPending { task });
                });
                sim::masked(|| cx.waker().wake_by_ref());
                Poll::Pending
            }
            Ok(sim::ThreadEv::Done { allocs }) => {
                sim::add_allocs(allocs);
                self.finished = true;
                Poll::Ready(())
            }
            Ok(sim::ThreadEv::Panicked { allocs, message }) => {
                sim::add_allocs(allocs);
                self.finished = true;
                // re-raise on the executor thread, as a poll of an async task would
                std::panic::resume_unwind(Box::new(message));
            }
            Err(_) => {
                self.finished = true;
                Poll::Ready(())
            }
        }
    }
}

impl Drop for ThreadedTask {
    fn drop(&mut self) {
        if !self.finished {
            // a sync call cannot be cancelled: let it run to completion, unjudged
            sim::record(Ev::Abandoned { task: self.task });
            loop {
                if self.go.send(()).is_err() {
                    break;
                }
                match self.ev.recv() {
                    Ok(sim::ThreadEv::Parked { .. }) => continue,
                    _ => break,
                }
            }
        }
        if let Some(h) = self.handle.take() {
            let _ = h.join();
        }
    }
}

#[derive(Clone, Copy, PartialEq, Eq, Debug)]
pub enum TaskEnd {
    Completed,
    Cancelled,
    Panicked,
    /// still alive when the step cap was reached in the fault-free drain
    Stuck,
}

pub struct RunResult {
    pub events: Vec<Ev>,
    pub ends: Vec<TaskEnd>,
    pub steps: u32,
    pub draws: u64,
    pub leaf_panics: u32,
    /// a state with unfinished tasks, nothing woken and no wake pending
    pub lost_wakeup: bool,
    /// a panic that was not an injected leaf panic (message)
    pub foreign_panic: Option<String>,
    pub max_in_flight: u32,
    pub spurious_polls: u32,
    pub wake_delays: u32,
    pub wake_reorders: u32,
}

const INJECTED: &str = "gensim: injected leaf panic";

fn panic_message(p: &Box<dyn std::any::Any + Send>) -> String {
    if let Some(s) = p.downcast_ref::<&str>() {
        s.to_string()
    } else if let Some(s) = p.downcast_ref::<String>() {
        s.clone()
    } else {
        "<non-string panic>".into()
    }
}

/// `mode`: 0 = through the generated trait methods; 1 = direct twin (the
/// original functions called directly); for mock tasks (app 2) mode 1 runs the
/// same calls on Impl<AppA> instead (the "Impl<T> path" twin).
pub fn run(plan: &Plan, apps: &Apps, mode: u8, deny: bool) -> RunResult {
    run_inner(plan, apps, mode, deny, None)
}

/// Scripted execution of a single-task plan: deliver every wake at once, poll
/// the task `cancel_after` times, optionally poll it once more without a
/// wake, then cancel it. Used by the systematic cancellation-point sweep.
pub fn run_scripted(plan: &Plan, apps: &Apps, cancel_after: u32, spurious: bool) -> RunResult {
    run_inner(plan, apps, 0, false, Some((cancel_after, spurious)))
}

fn run_inner(plan: &Plan, apps: &Apps, mode: u8, deny: bool, script: Option<(u32, bool)>) -> RunResult {
    let mut ctx = Box::new(RunCtx::new(plan.decisions.clone()));
    ctx.max_leaf = plan.cfg.max_leaf;
    ctx.max_alloc = plan.cfg.max_alloc;
    ctx.leaf_panic_pm = plan.cfg.leaf_panic_pm;
    let ctx_ptr: *mut RunCtx = &mut *ctx;
    sim::install(ctx_ptr);
    sim::set_deny(false);

    let n = plan.tasks.len();
    let mut futs: Vec<Option<TaskFut>> = Vec::with_capacity(n);
    let mut wakers: Vec<Waker> = Vec::with_capacity(n);
    #[cfg(feature = "unimock")]
    let mock = if plan.tasks.iter().any(|t| t.app == 2) && mode == 0 {
        Some(unimock::Unimock::new_partial(()))
    } else {
        None
    };
    for (i, t) in plan.tasks.iter().enumerate() {
        let direct = mode == 1;
        let all_sync = t.calls.iter().all(|c| !MODEL[c.method as usize].is_async);
        if t.threaded && all_sync && script.is_none() {
            let calls = t.calls.clone();
            let (a, b) = (apps.a, apps.b);
            let app = t.app;
            #[cfg(feature = "unimock")]
            let mock_clone = if app == 2 && mode == 0 { mock.as_ref().map(|m| m.clone()) } else { None };
            let body: Box<dyn FnOnce() + Send> = Box::new(move || {
                for c in &calls {
                    match app {
                        0 => {
                            dispatch::call_sync_a(a, c.method, &c.vals, direct, c.flavor);
                        }
                        1 => {
                            dispatch::call_sync_b(b, c.method, &c.vals, direct, c.flavor);
                        }
                        _ => {
                            #[cfg(feature = "unimock")]
                            {
                                if let Some(m) = mock_clone.as_ref() {
                                    dispatch::call_sync_mock(m, c.method, &c.vals, false, c.flavor);
                                } else {
                                    dispatch::call_sync_a(a, c.method, &c.vals, false, c.flavor);
                                }
                            }
                            #[cfg(not(feature = "unimock"))]
                            {
                                dispatch::call_sync_a(a, c.method, &c.vals, direct, c.flavor);
                            }
                        }
                    }
                }
            });
            futs.push(Some(Box::pin(ThreadedTask::spawn(i as u8, ctx_ptr, body))));
            wakers.push(Waker::from(Arc::new(TaskWaker { idx: i as u8 })));
            continue;
        }
        let fut: TaskFut = match t.app {
            0 => Box::pin(task_a(apps.a, t.calls.clone(), direct)),
            1 => Box::pin(task_b(apps.b, t.calls.clone(), direct)),
            _ => {
                #[cfg(feature = "unimock")]
                {
                    if mode == 0 {
                        Box::pin(task_mock(mock.as_ref().unwrap().clone(), t.calls.clone()))
                    } else {
                        Box::pin(task_a(apps.a, t.calls.clone(), false))
                    }
                }
                #[cfg(not(feature = "unimock"))]
                {
                    Box::pin(task_a(apps.a, t.calls.clone(), direct))
                }
            }
        };
        futs.push(Some(fut));
        wakers.push(Waker::from(Arc::new(TaskWaker { idx: i as u8 })));
    }
    let mut woken = vec![true; n];
    let mut ends: Vec<Option<TaskEnd>> = vec![None; n];
    let mut steps = 0u32;
    let mut lost_wakeup = false;
    let mut foreign_panic: Option<String> = None;
    let mut polls_in_drain = vec![0u32; n];
    let mut max_in_flight = 0u32;
    let mut started = vec![false; n];
    let mut spurious_polls = 0u32;
    let mut wake_delays = 0u32;
    let mut wake_reorders = 0u32;
    let mut script_polls = 0u32;
    let mut script_spurious_done = false;

    let draw = |n: u32| -> u32 { sim::with_ctx(|c| c.draw(n)) };

    // one poll of task t, inside an allocation window
    let mut poll_task = |t: usize,
                         futs: &mut Vec<Option<TaskFut>>,
                         ends: &mut Vec<Option<TaskEnd>>,
                         woken: &mut Vec<bool>,
                         foreign_panic: &mut Option<String>| {
        sim::with_ctx(|c| {
            c.current_task = t as u8;
            c.leaf_pendings_in_poll = 0;
            c.events.push(Ev::PollStart { task: t as u8 });
        });
        woken[t] = false;
        let waker = wakers[t].clone();
        let mut cx = Context::from_waker(&waker);
        let fut = futs[t].as_mut().unwrap();
        sim::window_open();
        if deny {
            sim::set_deny(true);
        }
        let r = catch_unwind(AssertUnwindSafe(|| fut.as_mut().poll(&mut cx)));
        sim::set_deny(false);
        let (allocs, declared) = sim::window_close();
        let leaf_pendings = sim::with_ctx(|c| c.leaf_pendings_in_poll);
        match r {
            Ok(Poll::Ready(())) => {
                sim::record(Ev::PollEnd { task: t as u8, ready: true, leaf_pendings, allocs, declared });
                // dropping a completed future is part of the call's cost
                sim::window_open();
                let f = futs[t].take();
                let _ = catch_unwind(AssertUnwindSafe(|| drop(f)));
                let _ = sim::window_close();
                ends[t] = Some(TaskEnd::Completed);
            }
            Ok(Poll::Pending) => {
                sim::record(Ev::PollEnd { task: t as u8, ready: false, leaf_pendings, allocs, declared });
            }
            Err(p) => {
                let msg = panic_message(&p);
                sim::masked(|| drop(p));
                // the panic machinery itself allocates: this window is not compared with what
                // the user code declared, only with the same window of the direct-call twin
                let _ = declared;
                sim::record(Ev::PollEnd { task: t as u8, ready: false, leaf_pendings, allocs: u32::MAX, declared: u32::MAX });
                sim::record(Ev::Panicked { task: t as u8, allocs });
                if msg != INJECTED && foreign_panic.is_none() {
                    *foreign_panic = Some(msg);
                }
                let f = futs[t].take();
                let _ = catch_unwind(AssertUnwindSafe(|| drop(f)));
                sim::record(Ev::CancelDone { task: t as u8 });
                ends[t] = Some(TaskEnd::Panicked);
            }
        }
    };

    let step_cap = plan.cfg.fault_steps + 64 * n as u32 + 64;
    loop {
        let live: Vec<usize> = (0..n).filter(|i| futs[*i].is_some()).collect();
        if live.is_empty() {
            break;
        }
        steps += 1;
        if steps > step_cap {
            for t in live {
                ends[t] = Some(TaskEnd::Stuck);
            }
            break;
        }
        let in_flight = live.iter().filter(|t| started[**t]).count() as u32;
        max_in_flight = max_in_flight.max(in_flight);
        let faults_on = steps <= plan.cfg.fault_steps;
        let pending_n = sim::with_ctx(|c| c.pending_wakes.len());
        if let Some((cancel_after, spurious)) = script {
            let pend: Vec<u8> = sim::with_ctx(|c| std::mem::take(&mut c.pending_wakes));
            for t in pend {
                woken[t as usize] = true;
            }
            let t = live[0];
            if script_polls < cancel_after {
                script_polls += 1;
                started[t] = true;
                poll_task(t, &mut futs, &mut ends, &mut woken, &mut foreign_panic);
                continue;
            }
            if spurious && !script_spurious_done {
                script_spurious_done = true;
                spurious_polls += 1;
                // an extra poll right after the last one, before any wake could matter
                poll_task(t, &mut futs, &mut ends, &mut woken, &mut foreign_panic);
                continue;
            }
            sim::with_ctx(|c| {
                c.current_task = t as u8;
                c.events.push(Ev::Cancel { task: t as u8 });
            });
            sim::window_open();
            let f = futs[t].take();
            let _ = catch_unwind(AssertUnwindSafe(|| drop(f)));
            let (allocs, declared) = sim::window_close();
            sim::record(Ev::SyncEnd { task: t as u8, allocs, declared });
            sim::record(Ev::CancelDone { task: t as u8 });
            ends[t] = Some(TaskEnd::Cancelled);
            continue;
        }
        if faults_on {
            let r = draw(1000);
            if pending_n > 0 && r < plan.cfg.p_deliver {
                let k = draw(pending_n as u32) as usize;
                if k != 0 {
                    wake_reorders += 1;
                }
                let t = sim::with_ctx(|c| c.pending_wakes.remove(k)) as usize;
                woken[t] = true;
                continue;
            }
            if pending_n > 0 {
                wake_delays += 1;
            }
            let r = r.saturating_sub(if pending_n > 0 { plan.cfg.p_deliver } else { 0 });
            if r < plan.cfg.p_cancel {
                let t = live[draw(live.len() as u32) as usize];
                sim::with_ctx(|c| {
                    c.current_task = t as u8;
                    c.events.push(Ev::Cancel { task: t as u8 });
                });
                sim::window_open();
                let f = futs[t].take();
                let r = catch_unwind(AssertUnwindSafe(|| drop(f)));
                let (allocs, declared) = sim::window_close();
                if let Err(p) = r {
                    let msg = panic_message(&p);
                    sim::masked(|| drop(p));
                    if foreign_panic.is_none() {
                        foreign_panic = Some(format!("panic while dropping a cancelled future: {msg}"));
                    }
                }
                sim::record(Ev::SyncEnd { task: t as u8, allocs, declared });
                sim::record(Ev::CancelDone { task: t as u8 });
                ends[t] = Some(TaskEnd::Cancelled);
                continue;
            }
            let r = r - plan.cfg.p_cancel;
            if r < plan.cfg.p_spurious {
                let t = live[draw(live.len() as u32) as usize];
                if !woken[t] {
                    spurious_polls += 1;
                }
                started[t] = true;
                poll_task(t, &mut futs, &mut ends, &mut woken, &mut foreign_panic);
                continue;
            }
            let ready: Vec<usize> = live.iter().copied().filter(|t| woken[*t]).collect();
            if !ready.is_empty() {
                let t = ready[draw(ready.len() as u32) as usize];
                started[t] = true;
                poll_task(t, &mut futs, &mut ends, &mut woken, &mut foreign_panic);
                continue;
            }
            if pending_n > 0 {
                let k = draw(pending_n as u32) as usize;
                let t = sim::with_ctx(|c| c.pending_wakes.remove(k)) as usize;
                woken[t] = true;
                continue;
            }
            lost_wakeup = true;
            for t in live {
                ends[t] = Some(TaskEnd::Stuck);
            }
            break;
        } else {
            // fault-free drain: deliver every wake, poll woken tasks in order
            let pend: Vec<u8> = sim::with_ctx(|c| std::mem::take(&mut c.pending_wakes));
            for t in pend {
                woken[t as usize] = true;
            }
            let ready: Vec<usize> = live.iter().copied().filter(|t| woken[*t]).collect();
            if ready.is_empty() {
                lost_wakeup = true;
                for t in live {
                    ends[t] = Some(TaskEnd::Stuck);
                }
                break;
            }
            let t = ready[0];
            started[t] = true;
            polls_in_drain[t] += 1;
            poll_task(t, &mut futs, &mut ends, &mut woken, &mut foreign_panic);
        }
    }
    // teardown: anything still alive is dropped (records the drops)
    for t in 0..n {
        if let Some(f) = futs[t].take() {
            sim::with_ctx(|c| c.current_task = t as u8);
            let _ = catch_unwind(AssertUnwindSafe(|| drop(f)));
        }
    }
    #[cfg(feature = "unimock")]
    {
        let _ = catch_unwind(AssertUnwindSafe(|| drop(mock)));
    }
    drop(wakers);
    sim::uninstall();
    let ctx = *ctx;
    RunResult {
        events: ctx.events,
        ends: ends.into_iter().map(|e| e.unwrap_or(TaskEnd::Stuck)).collect(),
        steps,
        draws: ctx.draws,
        leaf_panics: ctx.leaf_panics,
        lost_wakeup,
        foreign_panic,
        max_in_flight,
        spurious_polls,
        wake_delays,
        wake_reorders,
    }
}
