#!/usr/bin/env python3
"""Generates gensim's corpus (src/corpus.rs), its dispatch table and reference
model (src/dispatch.rs) from one specification, so that the three can never
drift apart. Run at development time; the output is committed. The corpus is
*fixed*: the simulator searches argument values, schedules and faults over it,
not program space (DESIGN.md §2)."""
import sys, os

OUT = os.path.join(os.path.dirname(os.path.abspath(__file__)), "src")

# --------------------------------------------------------------------------
# parameter kinds
# --------------------------------------------------------------------------
# kind -> (type text, number of values consumed)
KINDS = {
    "u64": ("u64", 1),
    "u32": ("u32", 1),
    "ref": ("&u64", 1),
    "refa": ("&'a u64", 1),
    "tracked": ("Tracked", 1),
    "reftracked": ("&Tracked", 1),
    "pair": ("(u64, u64)", 2),
    "wrap": ("W", 1),
    "arr": ("[u64; 2]", 2),
    "s2": ("S2", 1),
    "gen": ("T", 1),
    "string": ("String", 1),
    "str": ("&str", 1),
    "optu": ("Option<u64>", 1),
    "mutref": ("&mut u64", 1),
    "slice": ("&[u64]", 2),
    "vecu": ("Vec<u64>", 2),
    "fn": ("impl Fn(u64) -> u64", 1),
    "fnsend": ("impl Fn(u64) -> u64 + Send + Sync", 1),
    "fnmut": ("impl FnMut(u64) -> u64 + Send", 1),
    "fnonce": ("impl FnOnce(u64) -> u64 + Send", 1),
    "boxfn": ("Box<dyn Fn(u64) -> u64 + Send + Sync>", 1),
    "iter": ("impl Iterator<Item = u64> + Send", 2),
    "into": ("impl Into<u64> + Send", 1),
    "refref": ("&&u64", 1),
    "tup3": ("(u64, (u64, u64))", 3),
    "arrN": ("[u64; N]", 3),
    "genm": ("U", 1),
    "boolk": ("bool", 1),
    "f64k": ("f64", 1),
    "nest": ("((u64, u64), u64)", 3),
    "refpair": ("&(u64, u64)", 2),
    "hrfn": ("impl for<'x> Fn(&'x u64) -> &'x u64 + Send + Sync", 1),
    "hrdyn": ("&(dyn for<'x> Fn(&'x u64) -> u64 + Send + Sync)", 1),
    "fnptr": ("fn(u64) -> u64", 1),
    "selfref": ("&Self", 1),
    "mutw": ("&mut u64", 1),
    "refb": ("&'b u64", 1),
    "anyref": ("&A", 1),
    "paren": ("(u64)", 1),
    "qual": ("::core::primitive::u64", 1),
    "qself": ("<u64 as ::core::ops::Add>::Output", 1),
    "refstatic": ("&'static u64", 1),
    "dynauto": ("&(dyn Fn(u64) -> u64 + Send + Sync + ::core::panic::RefUnwindSafe)", 1),
    # exactly `impl Into<X>`, one bound: the conversion is the FUNCTION's business (it allocates,
    # declared, and constructs a Tracked); `intonever`: the function never converts at all
    "intosole": ("impl Into<Tracked>", 1),
    "intonever": ("impl Into<Tracked>", 1),
}
SPECIAL_KINDS = ("intosole", "intonever", "mutw", "refb", "anyref")


class Param:
    def __init__(self, pat, kind, name=None):
        self.pat, self.kind, self.name = pat, kind, name

    def sig(self, i, fn_name):
        ty = KINDS[self.kind][0]
        n = self.binding(i, fn_name)
        if self.pat == "wild":
            return f"_: {ty}"
        if self.pat == "cfgattr":
            return f"#[cfg(all())] {n}: {ty}"
        if self.pat == "allowattr":
            return f"#[allow(unused_variables)] {n}: {ty}"
        if self.pat == "mut":
            return f"mut {n}: {ty}"
        if self.pat == "destr":
            if self.kind == "pair":
                return f"({n}a, {n}b): {ty}"
            if self.kind == "wrap":
                return f"W({n}a): {ty}"
            if self.kind == "arr":
                return f"[{n}a, {n}b]: {ty}"
            if self.kind == "s2":
                return f"S2 {{ s }}: {ty}"
            if self.kind == "nest":
                return f"(({n}a, {n}b), {n}c): {ty}"
            if self.kind == "refpair":
                return f"&({n}a, {n}b): {ty}"
            raise ValueError
        return f"{n}: {ty}"

    def decl_sig(self, i, fn_name):
        """parameter as written in a hand-written trait declaration (plain identifiers only)"""
        if self.pat in ("destr", "wild"):
            return f"d{i}: {KINDS[self.kind][0]}"
        return self.sig(i, fn_name)

    def binding(self, i, fn_name):
        if self.pat == "same":
            return fn_name
        if self.name:
            return self.name
        return f"p{i}"

    def body_fps(self, i, fn_name):
        n = self.binding(i, fn_name)
        if self.pat == "wild":
            return []
        if self.pat == "destr":
            if self.kind in ("pair", "arr"):
                return [f"{n}a", f"{n}b"]
            if self.kind == "wrap":
                return [f"{n}a"]
            if self.kind == "s2":
                return ["s"]
            if self.kind == "nest":
                return [f"{n}a", f"{n}b", f"{n}c"]
            if self.kind == "refpair":
                return [f"{n}a", f"{n}b"]
        k = self.kind
        if k in ("u64", "paren", "qual", "qself"):
            return [n]
        if k in ("refstatic", "refb"):
            return [f"*{n}"]
        if k == "anyref":
            return [f"{{ let _ = {n}; sim::name_fp(std::any::type_name::<A>()) }}"]
        if k == "mutw":
            return [f"{{ let __old = *{n}; *{n} = __old ^ 0x5a5a; __old }}"]
        if k == "dynauto":
            return [f"{n}(7)"]
        if k == "u32":
            return [f"{n} as u64"]
        if k in ("ref", "refa"):
            return [f"*{n}"]
        if k in ("tracked", "reftracked"):
            return [f"{n}.id"]
        if k == "pair":
            return [f"{n}.0", f"{n}.1"]
        if k == "wrap":
            return [f"{n}.0"]
        if k == "arr":
            return [f"{n}[0]", f"{n}[1]"]
        if k == "s2":
            return [f"{n}.s"]
        if k in ("gen", "genm"):
            return [f"{n}.fp()"]
        if k == "string":
            return [f"sim::str_fp(&{n})"]
        if k == "str":
            return [f"sim::str_fp({n})"]
        if k == "optu":
            return [f"{n}.unwrap_or(0)"]
        if k == "mutref":
            return [f"*{n}"]
        if k in ("slice", "vecu"):
            return [f"{n}[0]", f"{n}[1]"]
        if k in ("fn", "fnsend", "boxfn", "fnonce"):
            return [f"{n}(7)"]
        if k == "fnmut":
            return [f"{{ let mut __g = {n}; __g(7) }}"]
        if k == "iter":
            return [f"{{ let mut __i = {n}; __i.next().unwrap_or(0) }}"]
        if k == "into":
            return [f"{n}.into()"]
        if k == "intosole":
            return [f"{{ let __t: Tracked = {n}.into(); __t.id }}"]
        if k == "intonever":
            return [f"{{ let _ = &{n}; 0 }}"]
        if k == "refref":
            return [f"**{n}"]
        if k == "tup3":
            return [f"{n}.0", f"{n}.1 .0", f"{n}.1 .1"]
        if k == "arrN":
            return [f"{n}[0]", f"{n}[1]", f"{n}[2]"]
        if k == "boolk":
            return [f"{n} as u64"]
        if k == "f64k":
            return [f"{n} as u64"]
        if k == "nest":
            return [f"{n}.0 .0", f"{n}.0 .1", f"{n}.1"]
        if k == "refpair":
            return [f"{n}.0", f"{n}.1"]
        if k == "hrfn":
            return [f"*{n}(&7)"]
        if k == "hrdyn":
            return [f"{n}(&7)"]
        if k == "fnptr":
            return [f"{n}(7)"]
        if k == "selfref":
            return [f"sim::addr({n}) as u64"]
        raise ValueError(k)

    def call(self, k):
        """(prelude, expr, expected fps, values consumed)"""
        kd = self.kind
        if kd in ("u64", "gen", "genm", "paren", "qual", "qself"):
            return ("", f"v[{k}]", [f"v[{k}]"], 1)
        if kd == "refstatic":
            return ("", f"sim::leak_static(v[{k}])", [f"v[{k}]"], 1)
        if kd == "refb":
            return ("", f"&v[{k}]", [f"v[{k}]"], 1)
        if kd == "anyref":
            return ("", f"&v[{k}]", ['sim::name_fp("u64")'], 1)
        if kd == "mutw":
            return (f"let mut mw{k} = v[{k}];", f"&mut mw{k}", [f"v[{k}]"], 1)
        if kd == "dynauto":
            return (f"let da{k} = v[{k}]; let dc{k} = move |x: u64| x ^ da{k};", f"&dc{k}", [f"7 ^ v[{k}]"], 1)
        if kd == "u32":
            return ("", f"v[{k}] as u32", [f"v[{k}]"], 1)
        if kd in ("ref", "refa"):
            return ("", f"&v[{k}]", [f"v[{k}]"], 1)
        if kd == "tracked":
            return ("", f"Tracked::new(v[{k}])", [f"v[{k}]"], 1)
        if kd == "reftracked":
            return (f"let tr{k} = Tracked::new(v[{k}]);", f"&tr{k}", [f"v[{k}]"], 1)
        if kd == "pair":
            return ("", f"(v[{k}], v[{k+1}])", [f"v[{k}]", f"v[{k+1}]"], 2)
        if kd == "arr":
            return ("", f"[v[{k}], v[{k+1}]]", [f"v[{k}]", f"v[{k+1}]"], 2)
        if kd == "wrap":
            return ("", f"W(v[{k}])", [f"v[{k}]"], 1)
        if kd == "s2":
            return ("", f"S2 {{ s: v[{k}] }}", [f"v[{k}]"], 1)
        if kd == "string":
            # harness-side construction of owned arguments is masked out of the allocation count
            return ("", f"sim::masked(|| v[{k}].to_string())", [f"v[{k}]"], 1)
        if kd == "str":
            return (f"let s{k} = sim::masked(|| v[{k}].to_string());", f"&s{k}[..]", [f"v[{k}]"], 1)
        if kd == "optu":
            return ("", f"Some(v[{k}])", [f"v[{k}]"], 1)
        if kd == "mutref":
            return (f"let mut m{k} = v[{k}];", f"&mut m{k}", [f"v[{k}]"], 1)
        if kd == "slice":
            return ("", f"&v[{k}..{k+2}]", [f"v[{k}]", f"v[{k+1}]"], 2)
        if kd == "vecu":
            return ("", f"sim::masked(|| vec![v[{k}], v[{k+1}]])", [f"v[{k}]", f"v[{k+1}]"], 2)
        if kd in ("fn", "fnsend", "fnmut", "fnonce"):
            # a capturing closure (captures the reference to the argument vector)
            return ("", f"move |x: u64| x ^ v[{k}]", [f"7 ^ v[{k}]"], 1)
        if kd == "boxfn":
            return (f"let c{k} = v[{k}];", f"sim::masked(|| Box::new(move |x: u64| x ^ c{k}) as Box<dyn Fn(u64) -> u64 + Send + Sync>)", [f"7 ^ v[{k}]"], 1)
        if kd == "iter":
            return (f"let i{k} = [v[{k}], v[{k+1}]];", f"i{k}.into_iter()", [f"v[{k}]"], 2)
        if kd == "into":
            return ("", f"v[{k}] as u32", [f"v[{k}]"], 1)
        if kd == "intosole":
            return ("", f"ConvSrc(v[{k}])", [f"v[{k}]"], 1)
        if kd == "intonever":
            return ("", f"ConvSrc(v[{k}])", ["0"], 1)
        if kd == "refref":
            return (f"let rr{k} = &v[{k}];", f"&rr{k}", [f"v[{k}]"], 1)
        if kd == "tup3":
            return ("", f"(v[{k}], (v[{k+1}], v[{k+2}]))", [f"v[{k}]", f"v[{k+1}]", f"v[{k+2}]"], 3)
        if kd == "arrN":
            return ("", f"[v[{k}], v[{k+1}], v[{k+2}]]", [f"v[{k}]", f"v[{k+1}]", f"v[{k+2}]"], 3)
        if kd == "boolk":
            return ("", f"v[{k}] & 1 == 1", [f"v[{k}] & 1"], 1)
        if kd == "f64k":
            return ("", f"v[{k}] as f64", [f"v[{k}]"], 1)
        if kd == "nest":
            return ("", f"((v[{k}], v[{k+1}]), v[{k+2}])", [f"v[{k}]", f"v[{k+1}]", f"v[{k+2}]"], 3)
        if kd == "refpair":
            return (f"let rp{k} = (v[{k}], v[{k+1}]);", f"&rp{k}", [f"v[{k}]", f"v[{k+1}]"], 2)
        if kd == "hrfn":
            return ("", "hr_id", ["7"], 1)
        if kd == "hrdyn":
            return (f"let hc{k} = v[{k}];", f"&(move |x: &u64| *x ^ hc{k})", [f"7 ^ v[{k}]"], 1)
        if kd == "fnptr":
            return ("", "fp_inc", ["8"], 1)
        if kd == "selfref":
            # a second application instance of the same type, distinct from the receiver
            return ("", "{OTHER}", ["sim::addr({OTHER}) as u64"], 1)
        raise ValueError(kd)


def P(spec):
    """'u64' | 'mut:u64' | 'wild:u64' | 'destr:pair' | 'same:u64' | 'name=arg1:u64'"""
    if ":" in spec:
        pat, kind = spec.split(":")
    else:
        pat, kind = "id", spec
    name = None
    if pat.startswith("name="):
        name = pat[5:]
        pat = "id"
    return Param(pat, kind, name)


class Fn:
    def __init__(self, name, deps, params, ret="u64", is_async=False, calls=(), opts="",
                 props=("C01",), below="", trait=None, vis="pub", send=True, generics=(), where=(),
                 bundle_args="", default_body=False, attrs="", unsafe_=False, big=False, guard_calls=False, deps_lt=False):
        self.name = name
        self.trait = trait or "".join(w.capitalize() for w in name.split("_"))
        self.deps = deps  # (form, [bounds])
        self.params = [P(p) for p in params]
        self.ret = ret
        self.is_async = is_async
        self.calls = list(calls)
        self.opts = opts
        self.props = list(props)
        self.below = below
        self.vis = vis
        self.send = send
        self.extra_generics = list(generics)
        self.extra_where = list(where)
        self.bundle_args = bundle_args
        self.default_body = default_body
        self.attrs = attrs
        self.unsafe_ = unsafe_
        self.big = big
        # nested calls only while the first argument is not a multiple of 3, passing it on
        # decremented: bounded recursion through the function's own (or a peer's) trait
        self.guard_calls = guard_calls
        # write the dependency reference with the explicit lifetime 'a (`deps: &'a impl Tr`)
        self.deps_lt = deps_lt
        self.fn_id = None
        self.method_id = None
        self.container = None  # module name / impl target
        self.dynamic = False

    @property
    def hetero(self):
        """heterogeneous signatures turn argument permutations and mis-routings
        into *compile* errors; they are gated behind the `hetero` cargo feature
        so that the homogeneous rest of the corpus still builds (and catches
        the change at run time) when a change to the macro breaks them"""
        tys = {KINDS[p.kind][0] for p in self.params}
        return len(tys) > 1 or self.ret not in ("u64", "unit") or any(p.kind != "u64" for p in self.params)


CID = [0]


def new_container():
    """Every corpus container (one entraited fn, module, trait with its provider impls, or
    dependency-inversion family) can be compiled out on its own with `--cfg skip_c<N>`:
    when a change to the macro makes some containers stop compiling, run.sh drops exactly
    those (compile-error-driven slicing) and the simulation still decides on the rest."""
    CID[0] += 1
    return CID[0]


def ccfg(cid):
    return f"#[cfg(not(skip_c{cid}))]\n"


def cmark(cid):
    return f"// @C{cid}\n"


FN_COUNTER = [0]
METHOD_COUNTER = [0]
ALL_FNS = {}      # name -> Fn  (callee lookup)
METHODS = []      # dispatchable methods in order
UNMOCK_NEG = []   # methods that must NOT be un-mockable (concrete deps, entraited traits)


RET_TEXT = {"u64": " -> u64", "unit": "", "refarg": " -> &'a u64", "refdeps": " -> &'a u64",
            "result": " -> Result<u64, u64>", "tracked": " -> Tracked", "opt": " -> Option<u64>",
            "implfp": " -> impl Fp", "explicit_unit": " -> ()",
            "boolr": " -> bool", "u8r": " -> u8", "u32r": " -> u32", "i32r": " -> i32", "usizer": " -> usize",
            "iter": " -> impl Iterator<Item = u64>", "tuple2": " -> (u64, u64)", "arr2r": " -> [u64; 2]", "range": " -> std::ops::Range<u64>",
            "implfn": " -> impl Fn(u64) -> u64", "optt": " -> Option<Tracked>", "resunit": " -> Result<(), u64>",
            "vecr": " -> Vec<u64>", "stringr": " -> String", "boxr": " -> Box<u64>", "arcr": " -> std::sync::Arc<u64>",
            "resvec": " -> Result<Vec<u64>, String>", "boxfut": " -> std::pin::Pin<Box<dyn std::future::Future<Output = u64> + Send>>", "implfut": " -> impl std::future::Future<Output = u64>",
            "implfut_drop": " -> impl std::future::Future<Output = u64> + Send"}


def ret_tail(fn, ch, depsb=None):
    """last lines of an original function's body, by return kind"""
    lines = []
    if fn.ret in ("u64", "implfp"):
        lines.append(f"sim::exit(__f, &[{ch}])")
    elif fn.ret in SMALL_RETS:
        mask, conv = SMALL_RETS[fn.ret]
        lines.append(f"let __r = sim::exit_masked(__f, &[{ch}], {mask});")
        lines.append(conv)
    elif fn.ret in ("unit", "explicit_unit"):
        lines.append(f"let _ = sim::exit(__f, &[{ch}]);")
    elif fn.ret == "refarg":
        rp = next(i for i, p in enumerate(fn.params) if p.kind == "refa")
        n = fn.params[rp].binding(rp, fn.name)
        lines.append(f"sim::exit_with(__f, *{n});")
        lines.append(n)
    elif fn.ret == "refdeps":
        lines.append(f"let __r: &'a u64 = {depsb}.slot_ref();")
        lines.append("sim::exit_with(__f, *__r);")
        lines.append("__r")
    elif fn.ret == "result":
        lines.append(f"let __r = sim::exit(__f, &[{ch}]);")
        lines.append("if __r & 1 == 0 { Ok(__r) } else { Err(__r) }")
    elif fn.ret == "opt":
        lines.append(f"let __r = sim::exit(__f, &[{ch}]);")
        lines.append("Some(__r)")
    elif fn.ret == "tracked":
        lines.append(f"let __r = sim::exit(__f, &[{ch}]);")
        lines.append("Tracked::new(__r)")
    elif fn.ret == "iter":
        lines.append(f"let __r = sim::exit(__f, &[{ch}]);")
        lines.append("[__r, __r ^ 1, __r ^ 2].into_iter()")
    elif fn.ret == "tuple2":
        lines.append(f"let __r = sim::exit(__f, &[{ch}]);")
        lines.append("(__r, __r ^ 1)")
    elif fn.ret == "arr2r":
        lines.append(f"let __r = sim::exit(__f, &[{ch}]);")
        lines.append("[__r, __r ^ 1]")
    elif fn.ret == "range":
        lines.append(f"let __r = sim::exit(__f, &[{ch}]);")
        lines.append("__r..(__r + 3)")
    elif fn.ret == "implfn":
        lines.append(f"let __r = sim::exit(__f, &[{ch}]);")
        lines.append("move |x: u64| x ^ __r")
    elif fn.ret == "optt":
        lines.append(f"let __r = sim::exit(__f, &[{ch}]);")
        lines.append("Some(Tracked::new(__r))")
    elif fn.ret == "resunit":
        lines.append(f"let __r = sim::exit(__f, &[{ch}]);")
        lines.append("if __r & 1 == 0 { Ok(()) } else { Err(__r) }")
    elif fn.ret == "vecr":
        lines.append(f"let __r = sim::exit(__f, &[{ch}]);")
        lines.append("sim::spare_vec(__r)")
    elif fn.ret == "stringr":
        lines.append(f"let __r = sim::exit(__f, &[{ch}]);")
        lines.append("sim::spare_string(__r)")
    elif fn.ret == "boxr":
        lines.append(f"let __r = sim::exit(__f, &[{ch}]);")
        lines.append("sim::declared(|| Box::new(__r))")
    elif fn.ret == "arcr":
        lines.append(f"let __r = sim::exit(__f, &[{ch}]);")
        lines.append("sim::declared(|| std::sync::Arc::new(__r))")
    elif fn.ret == "resvec":
        lines.append(f"let __r = sim::exit(__f, &[{ch}]);")
        lines.append("Ok(sim::spare_vec(__r))")
    elif fn.ret == "boxfut":
        lines.append(f"let __r = sim::exit(__f, &[{ch}]);")
        lines.append("sim::declared(|| Box::pin(std::future::ready(__r)) as std::pin::Pin<Box<dyn std::future::Future<Output = u64> + Send>>)")
    elif fn.ret in ("implfut", "implfut_drop"):
        # a NON-async function that does its work when called and hands back a ready future
        lines.append(f"let __r = sim::exit(__f, &[{ch}]);")
        lines.append("std::future::ready(__r)")
    else:
        raise ValueError(fn.ret)
    return lines


SMALL_RETS = {"boolr": ("1", "__r == 1"), "u8r": ("0xff", "__r as u8"), "u32r": ("0x7fff_ffff", "__r as u32"),
              "i32r": ("0x7fff_ffff", "__r as i32"), "usizer": ("0x7fff_ffff", "__r as usize")}


def lifetimes(fn):
    need_a = fn.ret in ("refarg", "refdeps") or any(p.kind in ("refa", "refb") for p in fn.params)
    return need_a


def deps_sig(fn):
    """returns (generics list, first param text or None, where list, recv expr, deps binding)"""
    form, bounds = fn.deps
    a = "'a " if fn.ret == "refdeps" or fn.deps_lt else ""
    b = " + ".join(bounds)
    if form == "impl":
        ty = f"impl {b}" if len(bounds) == 1 else f"(impl {b})"
        return ([], f"deps: &{a}{ty}", [], "sim::addr(deps)", "deps")
    if form == "gen":
        return ([f"D: {b}"], f"deps: &{a}D", [], "sim::addr(deps)", "deps")
    if form == "where":
        return (["D"], f"deps: &{a}D", [f"D: {b}"], "sim::addr(deps)", "deps")
    if form == "split":  # half inline, half where
        return ([f"D: {bounds[0]}"], f"deps: &{a}D", [f"D: {' + '.join(bounds[1:])}"], "sim::addr(deps)", "deps")
    if form == "any":
        return (["D"], f"deps: &{a}D", [], "sim::addr(deps)", "deps")
    if form == "nodeps":
        return ([], None, [], "0", None)
    if form == "concrete":
        return ([], f"dep: &{a}{bounds[0]}", [], "sim::addr(dep)", "dep")
    if form == "byval":
        return ([], f"deps: impl {b} + Token", [], "deps.token() as usize", "&deps")
    if form == "byval_any":
        # by value, no bounds at all: the only thing observable about it is its type
        return (["D"], "deps: D", [], "{ let _ = &deps; sim::name_fp(std::any::type_name::<D>()) as usize }", None)
    raise ValueError(form)


def fn_text(fn, indent="", in_impl=False):
    gens, first, where, recv, depsb = deps_sig(fn)
    lt = ["'a"] if lifetimes(fn) else []
    if any(p.kind == "refb" for p in fn.params):
        lt = ["'a", "'b: 'a"]
    if any(p.kind == "gen" for p in fn.params):
        gens = gens + ["T: Fp"]
    if any(p.kind == "anyref" for p in fn.params):
        gens = gens + ["A"]
    gens = gens + fn.extra_generics
    where = where + fn.extra_where
    generics = lt + gens
    g = f"<{', '.join(generics)}>" if generics else ""
    params = ([first] if first else []) + [p.sig(i, fn.name) for i, p in enumerate(fn.params)]
    ret = RET_TEXT[fn.ret]
    w = f" where {', '.join(where)}" if where else ""
    asy = ("async " if fn.is_async else "") + ("unsafe " if fn.unsafe_ else "")
    vis = (fn.vis + " ") if fn.vis else ""
    fps = []
    for i, p in enumerate(fn.params):
        fps += p.body_fps(i, fn.name)
    lines = []
    lines.append(f"let __f = sim::enter({fn.fn_id}, {recv}, &[{', '.join(fps)}]);")
    # function-local state: there is exactly one of it, inside the ORIGINAL function
    lines.append("static __LOCAL: std::sync::atomic::AtomicU8 = std::sync::atomic::AtomicU8::new(0);")
    lines.append("sim::mark(&__f, &__LOCAL);")
    lines.append("sim::user_alloc(&__f);")
    if fn.big:
        # a 4 KiB buffer kept alive across the awaits: the function's own future is large
        lines.append("let __big = sim::big_buf(&__f);")
    if fn.is_async:
        lines.append("sim::pause(&__f).await;")
    else:
        lines.append("sim::sync_point(&__f);")
    children = []
    for ci, callee_name in enumerate(fn.calls):
        callee = ALL_FNS[callee_name]
        n = sum(1 for _ in callee.params)
        args = [f"sim::sub(&__f, {ci * 8 + j})" for j in range(n)]
        if fn.guard_calls and args:
            args[0] = "(p0 % 3).wrapping_sub(1)"
        lines.append(f"let __a{ci} = [{', '.join(args)}];" if n else f"let __a{ci}: [u64; 0] = [];")
        cargs = ", ".join(f"__a{ci}[{j}]" for j in range(n))
        aw = ".await" if callee.is_async else ""
        if fn.guard_calls:
            lines.append(f"let __c{ci} = if p0 % 3 > 0 {{")
            lines.append(f"    let __t{ci} = sim::call_start({callee.method_id}, sim::addr({depsb}), &__a{ci});")
            lines.append(f"    let __r = {depsb.lstrip('&')}.{callee.name}({cargs}){aw};")
            lines.append(f"    sim::call_end(__t{ci}, __r);")
            lines.append("    __r")
            lines.append("} else {")
            lines.append("    0")
            lines.append("};")
        else:
            lines.append(f"let __t{ci} = sim::call_start({callee.method_id}, sim::addr({depsb}), &__a{ci});")
            lines.append(f"let __c{ci} = {depsb.lstrip('&')}.{callee.name}({cargs}){aw};")
            lines.append(f"sim::call_end(__t{ci}, __c{ci});")
        children.append(f"__c{ci}")
        if fn.is_async:
            lines.append("sim::pause(&__f).await;")
        else:
            lines.append("sim::sync_point(&__f);")
    ch = ", ".join(children)
    if fn.big:
        lines.append("std::hint::black_box(&__big);")
    lines += ret_tail(fn, ch, depsb)
    body = "\n".join(indent + "    " + l for l in lines)
    below = (indent + fn.below + "\n") if fn.below else ""
    return f"{below}{indent}{vis}{asy}fn {fn.name}{g}({', '.join(params)}){ret}{w} {{\n{body}\n{indent}}}\n"


def register(fn, container=None, method=True):
    FN_COUNTER[0] += 1
    fn.fn_id = FN_COUNTER[0]
    fn.container = container
    if method:
        fn.method_id = METHOD_COUNTER[0]
        METHOD_COUNTER[0] += 1
        METHODS.append(fn)
    assert fn.name not in ALL_FNS, fn.name
    ALL_FNS[fn.name] = fn
    return fn


# --------------------------------------------------------------------------
# the specification
# --------------------------------------------------------------------------
corpus = []          # text chunks
bundle_traits = []   # traits every app handle implements
unmock_traits = []   # traits the Unimock handle implements (unimock build)


def single(fn, registered=False):
    if not registered:
        register(fn)
    attr = f"#[entrait(pub {fn.trait}{', ' + fn.opts if fn.opts else ''})]"
    fn.cid = new_container()
    corpus.append(cmark(fn.cid) + ccfg(fn.cid) + attr + "\n" + fn_text(fn) + cmark(0))
    t = fn.trait + (fn.bundle_args or ("<u64>" if any(p.kind == "gen" for p in fn.params) else ""))
    if fn.deps[0] not in ("byval", "byval_any") and fn.bundle_args != "-":
        bundle_traits.append((t, fn.hetero))
    return fn


MOD_FILLERS = ["    pub const FILL_A: u32 = 1;\n", "    pub struct FillB(pub u8);\n", "    #[allow(dead_code)]\n    fn fill_private(_x: u64) -> u64 {\n        0\n    }\n",
               "    pub type FillC = u64;\n", "    pub static FILL_D: u8 = 3;\n", "    pub struct FillB(pub u8);\n    impl FillB {\n        pub fn hidden_fn(&self) -> u8 {\n            self.0\n        }\n    }\n"]


def module(name, trait, fns, private_text="", opts="", props=("C01",), fillers=()):
    """fillers: positions (fn indices) before which a non-fn item is interleaved"""
    chunks = []
    het = any(fn.hetero for fn in fns)
    cid = new_container()
    for fn in fns:
        fn.props = list(props)
        fn.cid = cid
        fn.container_hetero = het
        register(fn, container=name)
        if len(chunks) in fillers or (fillers and len(chunks) // 2 in fillers):
            k = len(chunks)
            chunks.append(MOD_FILLERS[k % len(MOD_FILLERS)].replace("FILL_A", f"FILL_A{k}").replace("FillB", f"FillB{k}").replace("fill_private", f"fill_private{k}")
                          .replace("FillC", f"FillC{k}").replace("FILL_D", f"FILL_D{k}"))
        chunks.append(fn_text(fn, indent="    "))
    attr = f"#[entrait(pub {trait}{', ' + opts if opts else ''})]"
    corpus.append(cmark(cid) + ccfg(cid) + f"{attr}\npub mod {name} {{\n    use super::*;\n" + "\n".join(chunks) + private_text + "}\n" + cmark(0))
    bundle_traits.append((trait, het))
    return het


# ---- section fn (C01): leaves first -------------------------------------
single(Fn("f0", ("any", []), [], props=("C01", "C14")))
single(Fn("f1", ("impl", ["F0"]), ["u64"], calls=["f0"], props=("C01", "C14")))
single(Fn("f2", ("impl", ["F1"]), ["u64", "u64"], calls=["f1"], props=("C01", "C14")))
single(Fn("f3", ("gen", ["F2", "F0"]), ["u64", "u64", "u64"], calls=["f2", "f0"], props=("C01", "C14")))
single(Fn("f4", ("where", ["F3"]), ["u32", "u64", "u32", "u64"], calls=["f3"], props=("C01", "C14")))
single(Fn("f5", ("impl", ["F1", "F2"]), ["u64", "u64", "u64", "u64", "u64"], calls=["f2", "f1"]))
single(Fn("f6_split", ("split", ["F0", "F1", "F2"]), ["u64", "u64"], calls=["f0", "f1", "f2"]))
single(Fn("moved2", ("impl", ["F0"]), ["tracked", "tracked"], calls=["f0"]))
single(Fn("moved_mix", ("impl", ["F1"]), ["u64", "tracked", "u64", "tracked"], calls=["f1"]))
single(Fn("borrowed2", ("impl", ["F0"]), ["reftracked", "ref", "ref"], calls=["f0"]))
single(Fn("ret_refarg", ("impl", ["F0"]), ["u64", "refa", "u64"], ret="refarg", calls=["f0"]))
single(Fn("ret_refarg2", ("gen", ["F0"]), ["refa", "refa"], ret="refarg"))
single(Fn("ret_unit", ("impl", ["F0"]), ["u64", "u64"], ret="unit", calls=["f0"]))
single(Fn("ret_unit0", ("any", []), [], ret="unit"))
single(Fn("ret_result", ("impl", ["F0"]), ["u64", "u64"], ret="result"))
single(Fn("ret_opt", ("impl", ["F1"]), ["u64", "u64"], ret="opt", calls=["f1"]))
single(Fn("ret_tracked", ("impl", ["F0"]), ["u64", "tracked"], ret="tracked"))
single(Fn("destr1", ("impl", ["F0"]), ["destr:pair", "wild:u64", "destr:wrap", "destr:arr"]))
single(Fn("destr2", ("impl", ["F0"]), ["u64", "destr:pair", "u64", "destr:pair"], calls=["f0"]))
single(Fn("destr3", ("impl", ["F0"]), ["destr:s2", "wild:u64", "wild:u64", "u64"]))
single(Fn("wild_all", ("impl", ["F0"]), ["wild:u64", "wild:u64", "wild:tracked"]))
single(Fn("lifted", ("impl", ["F0"]), ["destr:wrap", "u64", "destr:wrap"]))
single(Fn("renamed", ("impl", ["F0"]), ["u64", "name=renamed_:u64", "name=arg1:u64", "wild:u64", "name=_arg3:u64"]))
single(Fn("same", ("impl", ["F0"]), ["same:u64", "u64"], calls=["f0"]))
single(Fn("same2", ("impl", ["F0"]), ["u64", "same:u64", "u64"]))
single(Fn("generic_m", ("gen", ["F0"]), ["gen", "gen", "u64"], calls=["f0"]))
single(Fn("pairs", ("impl", ["F0"]), ["pair", "pair", "arr"]))
single(Fn("u32s", ("impl", ["F0"]), ["u32", "u32", "u32", "u64", "u64"]))
single(Fn("ret_refdeps", ("impl", ["SlotRef"]), ["u64", "u64"], ret="refdeps"))
single(Fn("f6", ("impl", ["F0"]), ["u64"] * 6, calls=["f0"], props=("C01", "C14")))
single(Fn("f7", ("gen", ["F1"]), ["u64"] * 7, calls=["f1"]))
single(Fn("f8", ("impl", ["F0"]), ["u64"] * 8))
single(Fn("t_string", ("impl", ["F0"]), ["string", "u64", "string"], calls=["f0"]))
single(Fn("t_str", ("impl", ["F0"]), ["str", "str", "u64"]))
single(Fn("t_opt", ("impl", ["F0"]), ["optu", "optu"]))
single(Fn("t_mutref", ("impl", ["F0"]), ["mutref", "u64", "mutref"]))
single(Fn("t_slice", ("impl", ["F0"]), ["slice", "slice"]))
single(Fn("t_vec", ("impl", ["F0"]), ["vecu", "u64", "vecu"]))
single(Fn("t_fn", ("impl", ["F0"]), ["fn", "u64", "fn"], calls=["f0"]))
single(Fn("t_fnmut", ("impl", ["F0"]), ["u64", "fnmut"]))
single(Fn("t_fnonce", ("impl", ["F0"]), ["fnonce", "fnonce"]))
single(Fn("t_boxfn", ("impl", ["F0"]), ["boxfn", "u64"]))
single(Fn("t_iter", ("impl", ["F0"]), ["iter", "u64"]))
single(Fn("t_into", ("impl", ["F0"]), ["into", "into", "u64"]))
single(Fn("t_refref", ("impl", ["F0"]), ["refref", "ref"]))
single(Fn("t_tup3", ("impl", ["F0"]), ["tup3", "u64"]))
single(Fn("t_raw", ("impl", ["F0"]), ["name=r#type:u64", "name=r#fn:u64", "u64"]))
single(Fn("t_where", ("gen", ["F0"]), ["gen", "gen"], where=["T: Clone + Send"], calls=["f0"]))
single(Fn("t_bool", ("impl", ["F0"]), ["boolk", "u64", "boolk"]))
single(Fn("t_f64", ("impl", ["F0"]), ["f64k", "f64k"]))
single(Fn("t_nest", ("impl", ["F0"]), ["destr:nest", "u64"]))
single(Fn("t_nest2", ("impl", ["F0"]), ["nest", "destr:refpair"]))
single(Fn("t_refpair", ("impl", ["F0"]), ["refpair", "refpair"]))
single(Fn("t_unsafe", ("impl", ["F0"]), ["u64", "u64"], unsafe_=True, calls=["f0"]))
single(Fn("t_implret", ("impl", ["F0"]), ["u64", "u64"], ret="implfp"))
single(Fn("t_unit_explicit", ("impl", ["F0"]), ["u64", "u64"], ret="explicit_unit"))
single(Fn("o_export", ("impl", ["F0"]), ["u64", "u64"], opts="export"))
single(Fn("o_nomock", ("impl", ["F0"]), ["u64", "u64"], opts="unimock = false, mockall = false"))
single(Fn("o_mockapi_off", ("impl", ["F0"]), ["u64", "u64"], opts="mock_api = OMockapiOffMock, unimock = false"))
single(Fn("b_static", ("impl", ["F0", "Send", "Sync", "'static"]), ["u64", "u64"], calls=["f0"]))
single(Fn("b_gen", ("gen", ["F1", "'static", "Send"]), ["u64", "u64"], calls=["f1"]))
single(Fn("b_where", ("where", ["F0", "Sync", "'static"]), ["u64", "u64"], calls=["f0"]))
single(Fn("b_split", ("split", ["F0", "'static", "F1"]), ["u64", "u64"], calls=["f0", "f1"]))
# async
single(Fn("af0", ("any", []), [], is_async=True, props=("C01", "C14")))
single(Fn("af1", ("impl", ["Af0"]), ["u64"], is_async=True, calls=["af0"], props=("C01", "C14")))
single(Fn("ab_static", ("impl", ["Af0", "Send", "Sync", "'static"]), ["u64", "u64"], is_async=True, calls=["af0"]))
single(Fn("af2", ("impl", ["Af1", "F1"]), ["u64", "u64"], is_async=True, calls=["af1", "f1"], props=("C01", "C14")))
single(Fn("af3", ("gen", ["Af2", "Af0"]), ["u64", "u64", "u64"], is_async=True, calls=["af2", "af0"], props=("C01", "C14")))
single(Fn("af4", ("where", ["Af3"]), ["u64", "u32", "u64", "u32"], is_async=True, calls=["af3"], props=("C01", "C14")))
single(Fn("amoved", ("impl", ["Af0"]), ["tracked", "u64", "tracked"], is_async=True, calls=["af0"]))
single(Fn("aborrowed", ("impl", ["Af0"]), ["reftracked", "ref", "ref"], is_async=True, calls=["af0"]))
single(Fn("aret_refarg", ("impl", ["Af0"]), ["refa", "u64", "refa"], ret="refarg", is_async=True, calls=["af0"]))
single(Fn("aret_unit", ("impl", ["Af0"]), ["u64", "u64"], ret="unit", is_async=True, calls=["af0"]))
single(Fn("adestr", ("impl", ["Af0"]), ["destr:pair", "wild:u64", "destr:arr", "u64"], is_async=True))
single(Fn("asame", ("impl", ["Af0"]), ["u64", "same:u64"], is_async=True))
single(Fn("aret_tracked", ("impl", ["Af0"]), ["tracked", "u64"], ret="tracked", is_async=True, calls=["af0"]))
single(Fn("a_nosend", ("impl", ["Af0"]), ["u64", "u64"], is_async=True, calls=["af0"], opts="?Send", send=False))
single(Fn("af6", ("impl", ["Af0"]), ["u64"] * 6, is_async=True, calls=["af0"], props=("C01", "C14")))
single(Fn("aret_unit0", ("any", []), [], ret="unit", is_async=True))
single(Fn("at_string", ("impl", ["Af0"]), ["string", "str"], is_async=True, calls=["af0"]))
single(Fn("at_fn", ("impl", ["Af0"]), ["fnsend", "u64", "fnmut"], is_async=True, calls=["af0"]))
single(Fn("at_vec", ("impl", ["Af0"]), ["vecu", "slice"], is_async=True))
single(Fn("at_mutref", ("impl", ["Af0"]), ["mutref", "u64"], is_async=True))
single(Fn("at_unit_explicit", ("impl", ["Af0"]), ["u64", "u64"], ret="explicit_unit", is_async=True, calls=["af0"]))
single(Fn("at_implret", ("impl", ["Af0"]), ["u64", "u64"], ret="implfp", is_async=True))
single(Fn("at_unsafe", ("impl", ["Af0"]), ["u64", "u64"], unsafe_=True, is_async=True))
single(Fn("and_nosend", ("nodeps", []), ["u64", "u64"], opts="no_deps, ?Send", is_async=True, send=False))
single(Fn("abig", ("impl", ["Af0"]), ["u64", "u64"], is_async=True, calls=["af0"], big=True, props=("C01", "C14")))
single(Fn("abig2", ("impl", ["Abig"]), ["u64", "u64"], is_async=True, calls=["abig"], big=True, props=("C01", "C14")))
single(Fn("abig3", ("impl", ["Abig2", "Af3"]), ["u64"], is_async=True, calls=["abig2"], props=("C01", "C14")))
single(Fn("r_bool", ("impl", ["F0"]), ["u64", "u64"], ret="boolr"))
single(Fn("r_u32", ("impl", ["F0"]), ["u64"], ret="u32r", calls=["f0"]))
single(Fn("r_i32", ("any", []), [], ret="i32r"))
single(Fn("r_usize", ("impl", ["F0"]), [], ret="usizer"))
single(Fn("ar_u8", ("impl", ["Af0"]), ["u64"], ret="u8r", is_async=True))
# dependency bounds that name `Clone` (and `Send`): the function must still get the receiver itself,
# not a clone of it (the handle is a small Clone application; identity = its address)
for _n, _b, _asy in (("cl_send", ["F0", "Clone", "Send", "Sync", "'static"], False), ("acl_send", ["Af0", "Clone", "Send", "Sync", "'static"], True),
                     ("acl_only", ["Af0", "Clone"], True), ("acl_gen", ["Af0", "Send", "Clone"], True)):
    _f = single(Fn(_n, ("gen" if _n == "acl_gen" else "impl", _b), ["u64", "u64"], is_async=_asy, bundle_args="-", calls=(["af0"] if _asy else ["f0"])))
    _f.small_handle = True
# a second lifetime with an outlives bound; an unbounded generic behind a reference (no_deps: it is
# the FIRST parameter, where a dependency would be); attributes on parameters
single(Fn("lt_b", ("impl", ["F0"]), ["refa", "refb"], ret="refarg", props=("C01", "C14")))
single(Fn("alt_b", ("impl", ["Af0"]), ["refa", "refb", "u64"], ret="refarg", is_async=True, calls=["af0"], props=("C01", "C14")))
module("ltbmod", "Ltbmod", [Fn("altbm", ("impl", ["Af0"]), ["refa", "refb"], ret="refarg", is_async=True), Fn("altbm_plain", ("impl", ["Af0"]), ["u64", "u64"], is_async=True)], props=("C01", "C14"))
single(Fn("nd_anyref", ("nodeps", []), ["anyref", "u64"], opts="no_deps"))
single(Fn("and_anyref", ("nodeps", []), ["anyref", "u64"], opts="no_deps, ?Send", is_async=True, send=False))
single(Fn("anyref_deps", ("impl", ["F0"]), ["anyref", "u64"]))
single(Fn("pattr_fn", ("impl", ["F0"]), ["cfgattr:u64", "u64"]))
single(Fn("pattr_fn2", ("impl", ["F0"]), ["u64", "allowattr:u64", "u64"]))
# explicit lifetime on the dependency reference
single(Fn("lt_deps", ("impl", ["F0"]), ["refa", "u64"], ret="refarg", deps_lt=True, calls=["f0"], props=("C01", "C14")))
single(Fn("alt_deps", ("gen", ["Af0"]), ["u64", "refa"], ret="refarg", deps_lt=True, is_async=True, props=("C01", "C14")))
module("ltmod", "Ltmod", [Fn("ltm_a", ("impl", ["F0"]), ["refa", "u64"], ret="refarg", deps_lt=True), Fn("ltm_b", ("impl", ["F0"]), ["refa", "u64"], ret="refarg")])
# doc comments and lint / doc attributes below `#[entrait]`
single(Fn("doc_fn", ("impl", ["F0"]), ["u64", "u64"], below="/// A documented function.\n/// Second line of documentation.", calls=["f0"], props=("C01", "C14")))
single(Fn("adoc_fn", ("impl", ["Af0"]), ["u64", "u64"], is_async=True, below="/** block doc */\n#[doc(hidden)]\n#[allow(unused_variables, clippy::all)]", props=("C01", "C14")))
single(Fn("doc_nd", ("nodeps", []), ["u64", "u64"], opts="no_deps", below="#[doc = \"attribute doc\"]\n#[deny(unsafe_code)]", props=("C01", "C14")))
module("docmod", "Docmod", [Fn("docm_a", ("impl", ["F0"]), ["u64", "u64"], below="/// first"), Fn("docm_b", ("impl", ["F0"]), ["u64", "u64"], below="/// second\n    #[allow(dead_code)]"),
                            Fn("adocm_c", ("impl", ["Af0"]), ["u64", "u64"], is_async=True, below="#[doc(alias = \"c\")]")], props=("C01", "C14"))
# sole-bound `impl Into<X>` parameters: converted by the function, or never
single(Fn("into_conv", ("impl", ["F0"]), ["intosole", "u64"], props=("C01", "C14")))
single(Fn("into_never", ("impl", ["F0"]), ["u64", "intonever"], props=("C01", "C14")))
single(Fn("into_both", ("impl", ["F0"]), ["intonever", "intosole"], calls=["f0"], props=("C01", "C14")))
single(Fn("into_nd", ("nodeps", []), ["intonever", "u64"], opts="no_deps", props=("C01", "C14")))
single(Fn("ainto_never", ("impl", ["Af0"]), ["u64", "intonever"], is_async=True, opts="?Send", send=False, props=("C01", "C14")))
single(Fn("ainto_conv", ("impl", ["Af0"]), ["intosole", "u64"], is_async=True, opts="?Send", send=False, calls=["af0"], props=("C01", "C14")))
module("intomod", "Intomod", [Fn("intom_a", ("impl", ["F0"]), ["intonever", "u64"]), Fn("intom_b", ("impl", ["F0"]), ["u64", "intosole"])], props=("C01", "C14"))
# bare-path attributes below `#[entrait]`: built-in markers and a user attribute macro whose
# expansion allocates (declared) inside the function it is applied to
single(Fn("hs_sync", ("impl", ["F0"]), ["u64", "u64"], below="#[gensim_attrs::heap_scratch]", calls=["f0"], props=("C01", "C14")))
single(Fn("hs_async", ("impl", ["Af0"]), ["u64", "u64"], is_async=True, below="#[gensim_attrs::heap_scratch]", calls=["af0"], props=("C01", "C14")))
single(Fn("hs_nd", ("nodeps", []), ["u64", "u64"], opts="no_deps", below="#[gensim_attrs::heap_scratch]", props=("C01", "C14")))
single(Fn("hs_inline", ("impl", ["F0"]), ["u64", "u64"], below="#[inline]", props=("C01", "C14")))
single(Fn("hs_cold", ("impl", ["F0"]), ["u64", "u64"], below="#[cold]", props=("C01", "C14")))
single(Fn("hs_track", ("impl", ["F0"]), ["u64", "u64"], below="#[track_caller]", props=("C01", "C14")))
single(Fn("hs_must", ("impl", ["F0"]), ["u64", "u64"], below="#[must_use]", props=("C01", "C14")))
single(Fn("hs_args", ("impl", ["F0"]), ["u64", "u64"], below="#[gensim_attrs::heap_scratch(twice)]", props=("C01", "C14")))
module("hsmod", "Hsmod", [Fn("hsm_a", ("impl", ["F0"]), ["u64", "u64"], below="#[gensim_attrs::heap_scratch]"),
                          Fn("hsm_b", ("impl", ["Af0"]), ["u64", "u64"], is_async=True, below="#[gensim_attrs::heap_scratch]"),
                          Fn("hsm_c", ("impl", ["F0"]), ["u64", "u64"], below="#[inline(always)]")], props=("C01", "C14"))
# the generated trait's name is a substring / prefix / suffix of a dependency bound's name
single(Fn("pre_fix", ("any", []), ["u64"], trait="PreFix", props=("C01", "C14")))
single(Fn("apre_fix", ("any", []), ["u64"], is_async=True, trait="ApreFix", props=("C01", "C14")))
single(Fn("pre", ("impl", ["PreFix"]), ["u64", "u64"], calls=["pre_fix"], trait="Pre", props=("C01", "C14")))
single(Fn("apre", ("impl", ["ApreFix"]), ["u64", "u64"], is_async=True, calls=["apre_fix"], trait="Apre", props=("C01", "C14")))
single(Fn("fix_suffix", ("impl", ["PreFix"]), ["u64"], calls=["pre_fix"], trait="Fix", props=("C01", "C14")))
single(Fn("afix_suffix", ("impl", ["ApreFix", "PreFix"]), ["u64"], is_async=True, calls=["apre_fix"], trait="Fix2", props=("C01", "C14")))
single(Fn("a_infix", ("gen", ["ApreFix"]), ["u64"], is_async=True, calls=["apre_fix"], trait="reF", props=("C01", "C14")))
single(Fn("apre_fix_more", ("impl", ["ApreFix"]), ["u64"], is_async=True, calls=["apre_fix"], trait="ApreFixMore", props=("C01", "C14")))
module("apremod", "Apr", [Fn("apm_a", ("impl", ["ApreFix"]), ["u64", "u64"], is_async=True, calls=["apre_fix"]),
                          Fn("apm_b", ("impl", ["PreFix"]), ["u64", "u64"], calls=["pre_fix"])], props=("C01", "C14"))
# no_deps
single(Fn("nd0_bool", ("nodeps", []), [], opts="no_deps", ret="boolr"))
single(Fn("nd0_u32", ("nodeps", []), [], opts="no_deps", ret="u32r"))
single(Fn("nd0_i32", ("nodeps", []), [], opts="no_deps", ret="i32r"))
single(Fn("nd0_usize", ("nodeps", []), [], opts="no_deps", ret="usizer"))
single(Fn("nd0_unit", ("nodeps", []), [], opts="no_deps", ret="unit"))
single(Fn("and0", ("nodeps", []), [], opts="no_deps", is_async=True))
single(Fn("nd0", ("nodeps", []), [], opts="no_deps"))
single(Fn("nd2", ("nodeps", []), ["u64", "u64"], opts="no_deps"))
single(Fn("nd3", ("nodeps", []), ["u64", "tracked", "u64"], opts="no_deps"))
single(Fn("nd_destr", ("nodeps", []), ["destr:pair", "wild:u64", "u64"], opts="no_deps"))
single(Fn("and2", ("nodeps", []), ["u64", "u64"], opts="no_deps", is_async=True))
single(Fn("nd_explicit", ("nodeps", []), ["u64", "u64"], opts="no_deps = true, export = false"))
# concrete dependency (C01 + C05's forwarding clause)
single(Fn("conc2", ("concrete", ["ConcDep"]), ["u64", "u64"], props=("C01",)))
single(Fn("conc_ret", ("concrete", ["ConcDep"]), ["refa", "u64"], ret="refarg", props=("C01",)))
single(Fn("aconc2", ("concrete", ["ConcDep"]), ["u64", "u64"], is_async=True, props=("C01",)))
for n in ("conc2", "conc_ret", "aconc2"):
    ALL_FNS[n].recv_kind = "conc"
# concrete dependency types of other shapes (path, generic instantiation, tuple)
for _nm, _ty, _h in (("conc_path", "crate::corpus::ConcDep", "conc_impl"), ("conc_gen", "ConcWrap<u64>", "conc_gen_impl"), ("conc_tup", "(ConcDep, u64)", "conc_tup_impl"),
                     ("conc_cl", "ConcClone", "conc_clone_impl"), ("conc_rc", "std::sync::Arc<ConcClone>", "conc_arc_impl")):
    _f = single(Fn(_nm, ("concrete", [_ty]), ["u64", "u64"], props=("C01", "C14")))
    _f.conc_handle = _h
    _f2 = single(Fn("a" + _nm, ("concrete", [_ty]), ["u64", "u64"], is_async=True, props=("C01", "C14")))
    _f2.conc_handle = _h
# by-value dependency
single(Fn("byval2", ("byval", ["F0"]), ["u64", "u64"], calls=["f0"]))
ALL_FNS["byval2"].recv_kind = "byval"
single(Fn("byval0", ("byval", ["F0"]), []))
single(Fn("byval3", ("byval", ["F0", "F1"]), ["u64", "tracked", "u64"], calls=["f1"]))
single(Fn("abyval2", ("byval", ["Af0", "Send"]), ["u64", "u64"], is_async=True, calls=["af0"]))
# the `mockall` option (test-gated derive; what matters here is that the impl targets Impl<T> only)
single(Fn("ml_a", ("impl", ["F0"]), ["u64", "u64"], opts="mockall", calls=["f0"]))
single(Fn("ml_b", ("nodeps", []), ["u64", "u64"], opts="no_deps, mockall"))
single(Fn("aml_c", ("impl", ["Af0"]), ["u64", "u64"], opts="mockall, ?Send", is_async=True, send=False))
module("mml", "Mml", [Fn("mml_a", ("impl", ["F0"]), ["u64", "u64"]), Fn("mml_b", ("impl", ["F0"]), ["u64", "u64"])], opts="mockall")

# ---- section mod (C01) ----------------------------------------------------
module("m3", "M3", [
    Fn("ma", ("impl", ["F0"]), ["u64", "u64"], calls=["f0"]),
    Fn("mb", ("impl", ["F0"]), ["u64", "u64"], calls=["f0"]),
    Fn("mc", ("impl", ["F0"]), ["u64", "u64"], calls=["f0"], vis="pub(crate)"),
    Fn("md", ("gen", ["F1"]), ["u64", "u64"], calls=["f1"], vis="pub(in crate)"),
], private_text="""
    #[allow(dead_code)]
    fn private_helper(deps: &impl F0, a: u64, b: u64) -> u64 {
        let _ = (deps, a);
        b
    }
    pub struct NotAFn;
    impl NotAFn {
        #[allow(dead_code)]
        pub fn hidden(&self, a: u64, b: u64) -> u64 {
            a ^ b
        }
    }
""")
module("am3", "Am3", [
    Fn("ama", ("impl", ["Af0"]), ["u64", "u64"], is_async=True, calls=["af0"]),
    Fn("amb", ("impl", ["Af0"]), ["u64", "u64"], is_async=True, calls=["af0"]),
    Fn("amc", ("impl", ["F0"]), ["u64", "u64"], calls=["f0"]),
])
module("am3h", "Am3h", [
    Fn("amd", ("impl", ["Af1"]), ["tracked", "u64"], is_async=True, calls=["af1"]),
    Fn("ame", ("impl", ["Af1"]), ["tracked", "u64"], is_async=True, calls=["af1"]),
    Fn("amf", ("impl", ["F1"]), ["u64", "ref"], calls=["f1"]),
])
module("m6", "M6", [Fn(f"m6{c}", ("impl", ["F0"]), ["u64", "u64", "u64"], calls=["f0"]) for c in "abcdef"])
module("m6u", "M6u", [Fn(f"m6u{c}", ("impl", ["F0"]), ["u64", "u64"], ret="unit") for c in "abc"]
       + [Fn(f"am6u{c}", ("impl", ["Af0"]), ["u64", "u64"], ret="unit", is_async=True, calls=["af0"]) for c in "abc"])
module("mh", "Mh", [
    Fn("mh_fn", ("impl", ["F0"]), ["fn", "u64"]),
    Fn("mh_str", ("impl", ["F0"]), ["str", "string"]),
    Fn("amh_fn", ("impl", ["Af0"]), ["fnonce", "u64"], is_async=True),
])
module("mfill", "Mfill", [Fn(f"mfill_{i}", ("impl", ["F0"]), ["u64", "u64"], calls=["f0"]) for i in range(5)], fillers=(0, 1, 2, 3, 4))
module("amfill", "Amfill", [Fn(f"amfill_{i}", ("impl", ["Af0"]), ["u64", "u64"], is_async=True) for i in range(4)], fillers=(0, 2))
module("mndfill", "Mndfill", [Fn(f"mndfill_{i}", ("nodeps", []), ["u64", "u64"]) for i in range(4)], opts="no_deps", fillers=(0, 1, 3))
module("mnd", "Mnd", [
    Fn("mna", ("nodeps", []), ["u64", "u64"]),
    Fn("mnb", ("nodeps", []), ["u64", "u64"]),
    Fn("mn0", ("nodeps", []), []),
    Fn("mn0b", ("nodeps", []), []),
], opts="no_deps")
# `macro_rules!` is textually scoped: a module's fns use a macro that is REDEFINED further down
# (and one that shadows a same-named macro of the enclosing scope below its use)
corpus.append("macro_rules! mmac_outer {\n    () => {\n        0u64\n    };\n}\n")


def mmac_module():
    fa = Fn("mmac_a", ("impl", ["F0"]), ["u64", "u64"])
    fb = Fn("mmac_b", ("impl", ["F0"]), ["u64", "u64"])
    fc = Fn("mmac_c", ("impl", ["F0"]), ["u64", "u64"])
    cid = new_container()
    for f in (fa, fb, fc):
        f.cid = cid
        f.container_hetero = False
        register(f, container="mmac")

    def body(f, expr):
        return (f"    pub fn {f.name}(deps: &impl F0, p0: u64, p1: u64) -> u64 {{\n        let __f = sim::enter({f.fn_id}, sim::addr(deps), &[{expr}, p1]);\n"
                f"        sim::user_alloc(&__f);\n        sim::sync_point(&__f);\n        sim::exit(__f, &[])\n    }}\n")
    text = (cmark(cid) + ccfg(cid) + "#[entrait(pub Mmac)]\npub mod mmac {\n    use super::*;\n"
            "    macro_rules! mmac_k {\n        () => {\n            0u64\n        };\n    }\n"
            + body(fa, "p0 + mmac_k!()")
            + "    macro_rules! mmac_k {\n        () => {\n            1u64\n        };\n    }\n"
            + body(fb, "p0 + mmac_k!() - 1")
            + body(fc, "p0 + mmac_outer!()")
            + "    #[allow(unused_macros)]\n    macro_rules! mmac_outer {\n        () => {\n            7u64\n        };\n    }\n"
            "}\n" + cmark(0))
    corpus.append(text)
    bundle_traits.append(("Mmac", False))


mmac_module()
# by-value (unbounded) deps AFTER by-reference deps in one module, and the other way round
single(Fn("bva_single", ("byval_any", []), ["u64", "u64"]))
module("mbyval", "Mbyval", [Fn("mbv_ref", ("impl", ["F0"]), ["u64", "u64"]), Fn("mbv_val", ("byval_any", []), ["u64", "u64"]),
                            Fn("mbv_ref2", ("gen", ["F0"]), ["u64", "u64"]), Fn("ambv_val", ("byval_any", []), ["u64", "u64"], is_async=True)])
module("mbyval2", "Mbyval2", [Fn("mbw_val", ("byval_any", []), ["u64", "u64"]), Fn("mbw_ref", ("impl", ["F0"]), ["u64", "u64"])])
single(Fn("argn_pos1", ("impl", ["F0"]), ["u64", "name=arg1:u64"]))
single(Fn("argn_pos2", ("impl", ["F0"]), ["name=arg2:u64", "name=arg0:u64", "u64"]))
# `&mut` parameters the function writes through (the write must reach the caller)
single(Fn("mutw1", ("impl", ["F0"]), ["mutw", "u64"], calls=["f0"]))
single(Fn("amutw1", ("impl", ["Af0"]), ["u64", "mutw"], is_async=True))
single(Fn("mutw_nd", ("nodeps", []), ["mutw", "mutw"], opts="no_deps"))
# parameter names that differ only by leading underscores
single(Fn("und_names", ("impl", ["F0"]), ["u64", "name=limit:u64", "name=_limit:u64"], calls=["f0"]))
single(Fn("aund_names", ("impl", ["Af0"]), ["name=_x:u64", "name=__x:u64", "name=x:u64"], is_async=True))
# names that are prefixes of their siblings' names
module("mpre", "Mpre", [Fn("get", ("impl", ["F0"]), ["u64", "u64"]), Fn("get_all", ("impl", ["F0"]), ["u64", "u64"]), Fn("get_", ("impl", ["F0"]), ["u64", "u64"]), Fn("ge", ("impl", ["F0"]), ["u64", "u64"])])
# restricted-visibility fns BEFORE plain `pub` ones, all with interchangeable signatures
_VIS = ["pub(crate)", "pub", "pub(in crate)", "pub", "pub(crate)", "pub"]
module("mvis", "Mvis", [Fn(f"mv_{n}", ("impl", ["F0"]), ["u64", "u64"], vis=v) for n, v in zip("cadbef", _VIS)])
module("amvis", "Amvis", [Fn(f"amv_{n}", ("impl", ["Af0"]), ["u64", "u64"], is_async=True, vis=v) for n, v in zip("cadbef", _VIS)])
module("mvisnd", "Mvisnd", [Fn(f"mvn_{n}", ("nodeps", []), ["u64", "u64"], vis=v) for n, v in zip("badc", _VIS)], opts="no_deps")
module("mvisf", "Mvisf", [Fn(f"mvf_{n}", ("impl", ["F0"]), ["u64", "u64"], vis=v, calls=["f0"]) for n, v in zip("zyxw", ["pub(crate)", "pub(crate)", "pub", "pub"])], fillers=(1, 2))
module("mndh", "Mndh", [
    Fn("mn_bool", ("nodeps", []), [], ret="boolr"),
    Fn("mn_i32", ("nodeps", []), [], ret="i32r"),
    Fn("mn_u32", ("nodeps", []), ["u64"], ret="u32r"),
], opts="no_deps")


# ==== systematic matrices: parameter kinds, return kinds, arities ==========
MATRIX_KINDS = [k for k in KINDS if k not in ("refa", "gen", "genm", "arrN", "u64", "selfref") + SPECIAL_KINDS]
ASYNC_SKIP = {"fn"}        # not Send
for k in MATRIX_KINDS:
    single(Fn(f"k_{k}", ("impl", ["F0"]), [k, "u64", k]))
    if k not in ASYNC_SKIP:
        single(Fn(f"ak_{k}", ("impl", ["Af0"]), [k, "u64", k], is_async=True))
MATRIX_RETS = ["u64", "unit", "explicit_unit", "result", "opt", "tracked", "implfp", "boolr", "u8r", "u32r", "i32r", "usizer",
               "iter", "tuple2", "arr2r", "range", "implfn", "optt", "resunit"]
for r in MATRIX_RETS:
    single(Fn(f"rk_{r}", ("impl", ["F0"]), ["u64", "u64"], ret=r, calls=["f0"]))
    single(Fn(f"ark_{r}", ("impl", ["Af0"]), ["u64", "u64"], ret=r, is_async=True, calls=["af0"]))
    single(Fn(f"rk0_{r}", ("any", []), [], ret=r))
    single(Fn(f"ndk_{r}", ("nodeps", []), ["u64", "u64"], opts="no_deps", ret=r))
    single(Fn(f"ndk0_{r}", ("nodeps", []), [], opts="no_deps", ret=r))
    single(Fn(f"andk0_{r}", ("nodeps", []), [], opts="no_deps", ret=r, is_async=True))
for n in range(0, 9):
    single(Fn(f"ary{n}", ("impl", ["F0"]), ["u64"] * n, props=("C01", "C14")))
    single(Fn(f"aary{n}", ("impl", ["Af0"]), ["u64"] * n, is_async=True, props=("C01", "C14")))
    single(Fn(f"ndary{n}", ("nodeps", []), ["u64"] * n, opts="no_deps"))
HOMOG_RETS = ["u64", "unit"]
module("mk", "Mk", [Fn(f"mk_{r}", ("impl", ["F0"]), ["u64", "u64"], ret=r) for r in HOMOG_RETS]
       + [Fn(f"amk_{r}", ("impl", ["Af0"]), ["u64", "u64"], ret=r, is_async=True) for r in HOMOG_RETS])
module("mkh", "Mkh", [Fn(f"mkh_{r}", ("impl", ["F0"]), ["u64", "u64"], ret=r) for r in MATRIX_RETS if r not in HOMOG_RETS]
       + [Fn(f"amkh_{r}", ("impl", ["Af0"]), ["u64", "u64"], ret=r, is_async=True) for r in MATRIX_RETS if r not in HOMOG_RETS])
module("mkk", "Mkk", [Fn(f"mkk_{k}", ("impl", ["F0"]), [k, "u64"]) for k in MATRIX_KINDS])


# ==== names that could collide with identifiers a macro uses internally ====
SUSPICIOUS = ["target", "this", "inner", "args", "fut", "result", "ret", "value", "output", "call", "f", "x", "app", "provider", "delegate", "entrait", "arg", "res", "tmp", "future"]
for nme in SUSPICIOUS:
    single(Fn(f"n1_{nme}", ("impl", ["F0"]), [f"name={nme}:u64", "u64"]))
    single(Fn(f"n2_{nme}", ("impl", ["Af0"]), ["u64", f"name={nme}:u64"], is_async=True))
module("mnames", "Mnames", [Fn(f"mn_{nme}", ("impl", ["F0"]), ["u64", f"name={nme}:u64"]) for nme in SUSPICIOUS])
# ==== unnamable patterns at position N next to a sibling literally named argN / _argN
for N in range(0, 3):
    for which, pk in enumerate(["destr:pair", "destr:arr", "destr:nest"]):
        ty = {"destr:pair": "pair", "destr:arr": "arr", "destr:nest": "nest"}[pk]
        before = ["u64"] * N
        single(Fn(f"dn{N}{which}_after", ("impl", ["F0"]), before + [pk, f"name=arg{N}:{ty}"]))
        single(Fn(f"adn{N}{which}_after", ("impl", ["Af0"]), before + [pk, f"name=arg{N}:{ty}"], is_async=True))
        single(Fn(f"dnu{N}{which}", ("impl", ["F0"]), before + [pk, f"name=_arg{N}:{ty}", f"name=arg{N}:{ty}"]))
        single(Fn(f"nddn{N}{which}", ("nodeps", []), before + [pk, f"name=arg{N}:{ty}"], opts="no_deps"))
    single(Fn(f"dnb{N}", ("impl", ["F0"]), [f"name=arg{N + 1}:pair"] + ["u64"] * N + ["destr:pair"]))
module("mdn", "Mdn", [Fn(f"mdn{N}", ("impl", ["F0"]), ["u64"] * N + ["destr:pair", f"name=arg{N}:pair"]) for N in range(0, 3)]
       + [Fn(f"amdn{N}", ("impl", ["Af0"]), ["u64"] * N + ["destr:arr", f"name=arg{N}:arr"], is_async=True) for N in range(0, 3)])
single(Fn("hr1", ("impl", ["F0"]), ["hrfn", "u64"]))
single(Fn("ahr1", ("impl", ["Af0"]), ["hrfn", "u64"], is_async=True, props=("C01", "C14")))
single(Fn("ahr2", ("impl", ["Af0"]), ["u64", "hrdyn"], is_async=True, props=("C01", "C14")))
single(Fn("ahr3", ("impl", ["Af0"]), ["fnptr", "u64"], is_async=True))
module("mhr", "Mhr", [Fn("mhr1", ("impl", ["Af0"]), ["hrfn", "u64"], is_async=True), Fn("mhr2", ("impl", ["F0"]), ["hrdyn", "u64"])])


# ==== unusual but valid identifiers, large arities, large containers =========
ODD_NAMES = ["a", "very_long_function_name_that_goes_on_and_on_for_quite_a_while_0123456789_abcdefghij", "__dunder", "trailing_", "with2numbers3",
             "r#match", "gr\u00f6\u00dfe", "x1", "_lead", "fn_", "self_", "impl_fn", "new", "default", "clone_", "drop_it", "main_", "test", "await_"]
for i, nme in enumerate(ODD_NAMES):
    tr = f"OddName{i}"
    single(Fn(nme, ("impl", ["F0"]), ["u64", "u64"], trait=tr, calls=["f0"]))
module("modd", "Modd", [Fn(f"{nme.replace('r#', 'raw_')}_m", ("impl", ["F0"]), ["u64", f"name={nme}:u64"]) for nme in ODD_NAMES if nme not in ("a", "x1")])
single(Fn("ary12", ("impl", ["F0"]), ["u64"] * 12))
single(Fn("aary12", ("impl", ["Af0"]), ["u64"] * 12, is_async=True))
single(Fn("ary16", ("impl", ["F0"]), ["u64"] * 16))
single(Fn("ndary12", ("nodeps", []), ["u64"] * 12, opts="no_deps"))
module("m12", "M12", [Fn(f"m12_{i}", ("impl", ["F0"]), ["u64", "u64"]) for i in range(12)])
module("am12", "Am12", [Fn(f"am12_{i}", ("impl", ["Af0"]), ["u64", "u64"], is_async=True) for i in range(12)])


# ==== families whose parameter lists are permutations of one another (same names, same types)
_PERMS = [("from", "to", "amount"), ("to", "from", "amount"), ("amount", "to", "from"), ("to", "amount", "from")]
for _i, _pm in enumerate(_PERMS):
    single(Fn(f"perm{_i}", ("impl", ["F0"]), [f"name={n}:u64" for n in _pm], calls=["f0"]))
    single(Fn(f"aperm{_i}", ("impl", ["Af0"]), [f"name={n}:u64" for n in _pm], is_async=True))
    single(Fn(f"ndperm{_i}", ("nodeps", []), [f"name={n}:u64" for n in _pm], opts="no_deps"))
module("mperm", "Mperm", [Fn(f"mperm{_i}", ("impl", ["F0"]), [f"name={n}:u64" for n in _pm]) for _i, _pm in enumerate(_PERMS)])
single(Fn("perm_ab", ("impl", ["F0"]), ["name=a:u64", "name=b:u64"]))
single(Fn("perm_ba", ("impl", ["F0"]), ["name=b:u64", "name=a:u64"]))
single(Fn("perm_ref_ab", ("impl", ["F0"]), ["name=a:ref", "name=b:ref"]))
single(Fn("perm_ref_ba", ("impl", ["F0"]), ["name=b:ref", "name=a:ref"]))


# ==== more parameter names ==================================================
for nme in ["core", "std", "dep", "impl_", "entrait_t", "unimock"]:
    single(Fn(f"n3_{nme}", ("impl", ["F0"]), ["u64", f"name={nme}:u64"], calls=["f0"]))


# ==== pseudo-random signatures: combinations the matrices only cover pairwise ==
# (fixed seed: the corpus stays a committed, deterministic artefact)
import random as _random
_rng = _random.Random(20260927)
_PK = [k for k in MATRIX_KINDS if k not in ("hrfn", "hrdyn", "fnptr")] + ["u64"] * 12
_ASYNC_OK = lambda k: k not in ASYNC_SKIP
_RETS = ["u64"] * 6 + ["unit", "result", "opt", "boolr", "u32r", "tuple2", "iter", "implfp", "tracked", "explicit_unit", "resunit"]


def _rand_params(n, is_async, fn_name, allow_destr=True):
    params = []
    used_names = set()
    for i in range(n):
        k = _rng.choice(_PK)
        while is_async and not _ASYNC_OK(k):
            k = _rng.choice(_PK)
        r = _rng.random()
        if r < 0.08 and allow_destr and k in ("pair", "arr", "wrap", "nest", "refpair"):
            params.append(f"destr:{k}")
        elif r < 0.14 and allow_destr:
            params.append(f"wild:{k}")
        elif r < 0.20 and "same" not in used_names:
            used_names.add("same")
            params.append(f"same:{k}")
        elif r < 0.34:
            nm = _rng.choice(SUSPICIOUS + [f"arg{j}" for j in range(4)] + [f"_arg{j}" for j in range(3)])
            if nm in used_names:
                params.append(k)
            else:
                used_names.add(nm)
                params.append(f"name={nm}:{k}")
        else:
            params.append(k)
    return params


for _i in range(140):
    _asy = _rng.random() < 0.45
    _n = _rng.choice([0, 1, 2, 2, 3, 3, 4, 5, 6])
    _name = f"rf{_i}"
    _ps = _rand_params(_n, _asy, _name)
    _ret = _rng.choice(_RETS)
    _form = _rng.random()
    if _form < 0.2:
        single(Fn(_name, ("nodeps", []), _ps, opts="no_deps", ret=_ret, is_async=_asy))
    elif _form < 0.4:
        single(Fn(_name, ("gen", ["Af0" if _asy else "F0", "Send"]), _ps, ret=_ret, is_async=_asy, calls=["af0" if _asy else "f0"]))
    elif _form < 0.5:
        single(Fn(_name, ("where", ["Af0" if _asy else "F0", "'static"]), _ps, ret=_ret, is_async=_asy))
    else:
        single(Fn(_name, ("impl", ["Af0" if _asy else "F0"]), _ps, ret=_ret, is_async=_asy, calls=(["af0"] if _asy else ["f0"]) if _rng.random() < 0.5 else []))
for _m in range(12):
    _k = _rng.choice([2, 3, 4, 5, 7])
    _fns = []
    for _j in range(_k):
        _asy = _rng.random() < 0.4
        _fns.append(Fn(f"rm{_m}_{_j}", ("impl", ["Af0" if _asy else "F0"]), _rand_params(_rng.choice([0, 1, 2, 3, 4]), _asy, f"rm{_m}_{_j}"),
                       ret=_rng.choice(_RETS), is_async=_asy, vis=_rng.choice(["pub", "pub", "pub(crate)"])))
    module(f"rmod{_m}", f"Rmod{_m}", _fns, fillers=tuple(_rng.sample(range(_k), _rng.choice([0, 1, 2]))))


# ==== owned buffers with spare capacity, sync fns returning futures, deep chains ==
for _r in ("vecr", "stringr", "boxr", "arcr", "resvec", "boxfut"):
    single(Fn(f"own_{_r}", ("impl", ["F0"]), ["u64", "u64"], ret=_r, calls=["f0"], props=("C01", "C14")))
    single(Fn(f"aown_{_r}", ("impl", ["Af0"]), ["u64", "u64"], ret=_r, is_async=True, calls=["af0"], props=("C01", "C14")))
    single(Fn(f"ndown_{_r}", ("nodeps", []), ["u64"], opts="no_deps", ret=_r, props=("C01", "C14")))
module("mown", "Mown", [Fn("mown_vec", ("impl", ["F0"]), ["u64", "u64"], ret="vecr"), Fn("mown_string", ("impl", ["F0"]), ["u64"], ret="stringr"),
                        Fn("amown_vec", ("impl", ["Af0"]), ["u64"], ret="vecr", is_async=True)], props=("C01", "C14"))
single(Fn("fut_sync", ("impl", ["F0"]), ["u64", "u64"], ret="implfut", calls=["f0"]))
single(Fn("fut_sync_drop", ("impl", ["F0"]), ["u64", "u64"], ret="implfut_drop", calls=["f0"]))
single(Fn("fut_nd_drop", ("nodeps", []), ["u64", "u64"], opts="no_deps", ret="implfut_drop"))
module("mfut", "Mfut", [Fn("mfut_a", ("impl", ["F0"]), ["u64", "u64"], ret="implfut_drop"), Fn("mfut_b", ("impl", ["F0"]), ["u64", "u64"], ret="implfut")])
_prev = "f0"
for _d in range(1, 14):
    single(Fn(f"chain{_d}", ("impl", [ALL_FNS[_prev].trait]), ["u64"], calls=[_prev], props=("C01", "C14")))
    _prev = f"chain{_d}"
_prev = "af0"
for _d in range(1, 14):
    single(Fn(f"achain{_d}", ("impl", [ALL_FNS[_prev].trait]), ["u64"], is_async=True, calls=[_prev], props=("C01", "C14")))
    _prev = f"achain{_d}"

N_PLAIN = METHOD_COUNTER[0]

# ---- write corpus prelude -------------------------------------------------
prelude = """// @generated by gen_corpus.py — do not edit by hand.
#![allow(clippy::all, unused_variables, unused_mut, dead_code, unused_imports, unexpected_cfgs)]
use crate::sim::{self, Fp, Tracked};
use entrait::*;

pub struct W(pub u64);
pub struct S2 {
    pub s: u64,
}

/// source of a caller-visible conversion: `ConvSrc -> Tracked` allocates (declared) and constructs
pub struct ConvSrc(pub u64);
impl From<ConvSrc> for Tracked {
    fn from(s: ConvSrc) -> Tracked {
        let b = sim::declared(|| Box::new(s.0));
        std::hint::black_box(&b);
        Tracked::new(*b)
    }
}

pub fn hr_id(x: &u64) -> &u64 {
    x
}
pub fn fp_inc(x: u64) -> u64 {
    x + 1
}

/// identity token for by-value dependencies
pub trait Token {
    fn token(&self) -> u64;
}

"""

# assign sections to what exists so far
for fn in METHODS:
    form = fn.deps[0]
    fn.section = {"nodeps": "nodeps", "concrete": "concrete", "byval": "byval"}.get(form, "mod" if fn.container else "fn")

# --------------------------------------------------------------------------
# entraited traits (C06)
# --------------------------------------------------------------------------
LOOKUP_KINDS = {}


def lookup_kind(name):
    if name not in LOOKUP_KINDS:
        LOOKUP_KINDS[name] = len(LOOKUP_KINDS) + 1
    return LOOKUP_KINDS[name]


def method_generics(fn):
    lt = ["'a"] if lifetimes(fn) else []
    if any(p.kind == "genm" for p in fn.params):
        lt = lt + ["U: Fp"]
    return f"<{', '.join(lt)}>" if lt else ""


def decl_text(fn):
    """method declaration inside a hand-written trait"""
    g = method_generics(fn)
    slf = "&'a self" if fn.ret == "refdeps" else "&self"
    params = [slf] + [p.decl_sig(i, fn.name) for i, p in enumerate(fn.params)]
    ret = RET_TEXT[fn.ret]
    asy = "async " if fn.is_async else ""
    attrs = f"    {fn.attrs}\n" if fn.attrs else ""
    if fn.default_body:
        # a default body the provider overrides: reaching it is a mis-forwarding (function id 60000)
        body = " {\n        let __f = sim::enter(60000, sim::addr(self), &[]);\n        sim::exit(__f, &[])\n    }\n"
        return f"{attrs}    {asy}fn {fn.name}{g}({', '.join(params)}){ret}{body}"
    return f"{attrs}    {asy}fn {fn.name}{g}({', '.join(params)}){ret};\n"


def self_impl_fn_text(fn, id_expr):
    """hand-written provider impl of one trait method (simulator-owned leaf)"""
    g = method_generics(fn)
    if getattr(fn, "desugared_provider", False):
        # `async fn` in the trait, provided in desugared form: the provider is ENTERED when the
        # method is called and hands back a future that finishes the work
        params = ["&self"] + [p.sig(i, fn.name) for i, p in enumerate(fn.params)]
        fps = []
        for i, p in enumerate(fn.params):
            fps += p.body_fps(i, fn.name)
        rt = {"u64": "u64", "unit": "()"}[fn.ret]
        tail = "sim::exit(__f, &[])" if fn.ret == "u64" else "let _ = sim::exit(__f, &[]);"
        return (f"    #[allow(refining_impl_trait)]\n    fn {fn.name}{g}({', '.join(params)}) -> impl std::future::Future<Output = {rt}> + Send {{\n"
                f"        let __f = sim::enter({id_expr}, sim::addr(self), &[{', '.join(fps)}]);\n        sim::user_alloc(&__f);\n"
                f"        async move {{\n            sim::pause(&__f).await;\n            {tail}\n        }}\n    }}\n")
    params = ["&self"] + [p.sig(i, fn.name) for i, p in enumerate(fn.params)]
    ret = RET_TEXT[fn.ret]
    asy = "async " if fn.is_async else ""
    attrs = f"    {fn.attrs}\n" if fn.attrs else ""
    fps = []
    for i, p in enumerate(fn.params):
        fps += p.body_fps(i, fn.name)
    lines = [f"let __f = sim::enter({id_expr}, sim::addr(self), &[{', '.join(fps)}]);", "sim::user_alloc(&__f);"]
    if fn.is_async:
        lines.append("sim::pause(&__f).await;")
    else:
        lines.append("sim::sync_point(&__f);")
    lines += ret_tail(fn, "")
    body = "\n".join("        " + l for l in lines)
    return f"{attrs}    {asy}fn {fn.name}{g}({', '.join(params)}){ret} {{\n{body}\n    }}\n"


def trait_section(name, delegate, methods, async_trait=False, generic=False, supers="", scoped=False, dual=False,
                  nosend=False, opts_pre="", opts_post="", flavours=(), cross=False, macro_name="entrait", refimpl=False):
    """delegate: 'self' | 'ref' | 'borrow'; scoped: declare everything inside a
    module that imports Borrow / AsRef / Deref, as user code commonly does"""
    het = any(fn.hetero for fn in methods)
    cid = new_container()
    cfg = ccfg(cid)
    for fn in methods:
        fn.cid = cid
        fn.container_hetero = het
        FN_COUNTER[0] += 2
        fn.fn_id = FN_COUNTER[0] - 1          # app A; app B = +1
        fn.fn_ids = (fn.fn_id, fn.fn_id + 1)
        fn.method_id = METHOD_COUNTER[0]
        METHOD_COUNTER[0] += 1
        fn.section = "trait"
        assert fn.name not in ALL_FNS, fn.name
        fn.props = ["C06"] + (["C14"] if delegate == "self" and not async_trait else [])
        fn.dynamic = delegate != "self" or async_trait
        METHODS.append(fn)
        ALL_FNS[fn.name] = fn
    opt = {"self": "", "ref": "delegate_by = ref", "borrow": "delegate_by = Borrow"}[delegate]
    opt = ", ".join(x for x in (opts_pre, opt, "?Send" if nosend else "", opts_post) if x)
    at = ("#[async_trait::async_trait(?Send)]\n" if nosend else "#[async_trait::async_trait]\n") if async_trait else ""
    tg = "<T: Fp>" if generic else ""
    text = f"{cfg}#[{macro_name}({opt})]\n{at}pub trait {name}{tg}{supers} {{\n" + "".join(decl_text(m) for m in methods) + "}\n"
    targ = "<T>" if generic else ""
    if delegate == "self":
        gen = "<const K: u16, T: Fp>" if generic else "<const K: u16>"
        text += f"{cfg}{at}impl{gen} {name}{targ} for App<K> {{\n" + "".join(
            self_impl_fn_text(m, f"{m.fn_id} + K") for m in methods) + "}\n"
        if dual:
            # the application ALSO hands out a decoy provider through AsRef / Borrow: reaching it
            # (function id 60004) means the Self selector was not honoured
            field = f"decoy_{name.lower()}"
            APP_FIELDS.append(field)
            text += f"{cfg}impl {name} for Prov {{\n"
            for m in methods:
                ps = ["&self"] + [p.sig(i, m.name) for i, p in enumerate(m.params)]
                text += (f"    fn {m.name}{method_generics(m)}({', '.join(ps)}){RET_TEXT[m.ret]} {{\n        let __f = sim::enter(60004, sim::addr(self), &[]);\n"
                         + "\n".join("        " + l for l in ret_tail(m, "")) + "\n    }\n")
            text += "}\n"
            text += (f"{cfg}impl<const K: u16> AsRef<dyn {name}> for App<K> {{\n    fn as_ref(&self) -> &(dyn {name} + 'static) {{\n        &self.{field}\n    }}\n}}\n"
                     f"{cfg}impl<const K: u16> ::core::borrow::Borrow<dyn {name}> for App<K> {{\n    fn borrow(&self) -> &(dyn {name} + 'static) {{\n        &self.{field}\n    }}\n}}\n")
        for m in methods:
            m.recv_expr = "sim::addr(app.as_ref())"
            m.lookups = 0
            m.direct_call = f"{name}::{m.name}(app.as_ref(), {{args}})"
    else:
        field = f"prov_{name.lower()}"
        m0 = methods[0]
        text += f"{cfg}{at}impl {name} for Prov {{\n" + "".join(
            self_impl_fn_text(m, f"{m.fn_id} + self.which") for m in methods) + "}\n"
        k = lookup_kind(name)
        if delegate == "ref":
            text += (f"{cfg}impl<const K: u16> AsRef<dyn {name}> for App<K> {{\n    fn as_ref(&self) -> &(dyn {name} + 'static) {{\n"
                     f"        sim::lookup({k});\n        &self.{field}\n    }}\n}}\n")
        else:
            text += (f"{cfg}impl<const K: u16> ::core::borrow::Borrow<dyn {name}> for App<K> {{\n    fn borrow(&self) -> &(dyn {name} + 'static) {{\n"
                     f"        sim::lookup({k});\n        &self.{field}\n    }}\n}}\n")
        for fl in flavours:
            # decoy providers handed out through OTHER `dyn` flavours of the same trait
            # (`dyn Tr + Sync`, `dyn Tr + Send`, ..): a different field, hence a different receiver
            dfield = f"decoy_{name.lower()}_{fl.replace(' ', '').replace('+', '_').lower()}"
            APP_FIELDS.append(dfield)
            tr = "AsRef" if delegate == "ref" else "::core::borrow::Borrow"
            fnm = "as_ref" if delegate == "ref" else "borrow"
            text += (f"{cfg}impl<const K: u16> {tr}<dyn {name} + {fl}> for App<K> {{\n    fn {fnm}(&self) -> &(dyn {name} + {fl} + 'static) {{\n"
                     f"        &self.{dfield}\n    }}\n}}\n")
        if refimpl:
            # the program also implements the trait for REFERENCES to implementors, and not as a
            # transparent pass-through (function id 60008): one reference level too many in the
            # generated forwarding call selects this impl instead of the provider
            text += f"{cfg}{at}impl<G: {name} + ?Sized{' + Sync' if async_trait else ''}> {name} for &G {{\n"
            for m in methods:
                g = method_generics(m)
                ps = ["&self"] + [p.sig(i, m.name) for i, p in enumerate(m.params)]
                asy = "async " if m.is_async else ""
                text += (f"    {asy}fn {m.name}{g}({', '.join(ps)}){RET_TEXT[m.ret]} {{\n        let __f = sim::enter(60008, sim::addr(self), &[]);\n"
                         + "\n".join("        " + l for l in ret_tail(m, "")) + "\n    }\n")
            text += "}\n"
        if cross:
            # a decoy provider handed out through the OTHER core trait (Borrow for `ref`, AsRef for
            # `Borrow`), same `dyn` flavour and with `+ Sync`
            cfield = f"cross_{name.lower()}"
            APP_FIELDS.append(cfield)
            otr, ofn = ("::core::borrow::Borrow", "borrow") if delegate == "ref" else ("AsRef", "as_ref")
            for fl in ("", " + Sync"):
                text += (f"{cfg}impl<const K: u16> {otr}<dyn {name}{fl}> for App<K> {{\n    fn {ofn}(&self) -> &(dyn {name}{fl} + 'static) {{\n"
                         f"        &self.{cfield}\n    }}\n}}\n")
        if dual:
            # the application ALSO implements the trait itself (reaching it is a mis-forwarding: id 60003)
            text += f"{cfg}{at}impl<const K: u16> {name}{targ} for App<K> {{\n"
            for m in methods:
                g = method_generics(m)
                ps = ["&self"] + [p.sig(i, m.name) for i, p in enumerate(m.params)]
                asy = "async " if m.is_async else ""
                text += (f"    {asy}fn {m.name}{g}({', '.join(ps)}){RET_TEXT[m.ret]} {{\n        let __f = sim::enter(60003, sim::addr(self), &[]);\n"
                         + "\n".join("        " + l for l in ret_tail(m, "")) + "\n    }\n")
            text += "}\n"
        APP_FIELDS.append(field)
        for m in methods:
            m.recv_expr = f"sim::addr(&app.{field})"
            m.lookups = 1
            m.lookup_kind = k
            m.direct_call = f"{name}::{m.name}(&app.{field}, {{args}})"
    for m in methods:
        m.trait_call = f"app.{m.name}({{args}})"
    if scoped:
        inner = "\n".join("    " + l if l else l for l in text.split("\n"))
        text = (f"{cfg}pub mod scope_{name.lower()} {{\n    use super::*;\n    #[allow(unused_imports)]\n"
                f"    use std::{{borrow::Borrow, convert::AsRef, ops::Deref}};\n{inner}}}\n{cfg}pub use scope_{name.lower()}::{name};\n")
    corpus.append(cmark(cid) + text + cmark(0))
    bundle_traits.append((name + ("<u64>" if generic else ""), het))


APP_FIELDS = []
SELF = ("self", [])
trait_section("Plain", "self", [
    Fn("p1", SELF, ["u64", "u64"]),
    Fn("p2", SELF, ["u64", "u64"]),
    Fn("p_unit", SELF, ["u64", "u64"], ret="unit"),
    Fn("p0", SELF, []),
    Fn("p5", SELF, ["u64", "u64", "u64", "u64", "u64"]),
    Fn("p_default", SELF, ["u64", "u64"], default_body=True),
    Fn("p_cfg", SELF, ["u64", "u64"], attrs="#[cfg(all())]"),
    Fn("p_unit0", SELF, [], ret="unit"),
])
trait_section("PlainSuper", "self", [
    Fn("ps1", SELF, ["u64", "u64"]),
    Fn("ps_unit", SELF, ["u64"], ret="unit"),
], supers=": Sync + 'static")
trait_section("PlainH", "self", [
    Fn("p3", SELF, ["refa", "u64"], ret="refarg"),
    Fn("p_moved", SELF, ["tracked", "u64", "tracked"]),
    Fn("p_moved2", SELF, ["tracked", "u64", "tracked"]),
    Fn("p_genm", SELF, ["genm", "genm"]),
    Fn("p_fn", SELF, ["fn", "u64"]),
    Fn("p_str", SELF, ["str", "string"]),
])
trait_section("PlainGen", "self", [Fn("pg", SELF, ["gen", "gen", "u64"])], generic=True)
trait_section("ByRef", "ref", [
    Fn("r1", SELF, ["u64", "u64"]),
    Fn("r2", SELF, ["u64", "u64"]),
    Fn("r3", SELF, ["u64", "u64", "u64"]),
    Fn("r_unit", SELF, ["u64", "u64"], ret="unit"),
    Fn("r_default", SELF, ["u64", "u64"], default_body=True),
], supers=": 'static")
trait_section("ByRefH", "ref", [
    Fn("r_moved", SELF, ["u64", "tracked"]),
    Fn("r_ref", SELF, ["refa", "u64"], ret="refarg"),
], supers=": 'static")
trait_section("ByBorrow", "borrow", [
    Fn("b1", SELF, ["u64", "u64"]),
    Fn("b2", SELF, ["u64", "u64"]),
    Fn("b_unit", SELF, ["u64", "u64"], ret="unit"),
    Fn("b0", SELF, []),
], supers=": 'static")
trait_section("ByBorrowS", "borrow", [
    Fn("bs1", SELF, ["u64", "u64"]),
    Fn("bs2", SELF, ["u64", "u64"]),
], supers=": 'static", scoped=True)
trait_section("ByRefS", "ref", [
    Fn("rs1", SELF, ["u64", "u64"]),
    Fn("rs_unit", SELF, ["u64"], ret="unit"),
], supers=": 'static", scoped=True)
trait_section("PlainS", "self", [
    Fn("pls1", SELF, ["u64", "u64"]),
    Fn("pls2", SELF, ["u64", "u64"]),
], scoped=True)
trait_section("APlain", "self", [
    Fn("ap1", SELF, ["u64", "u64"], is_async=True),
    Fn("ap2", SELF, ["u64", "u64"], is_async=True),
    Fn("ap3", SELF, ["u64", "u64", "u64"], is_async=True),
    Fn("ap_sync", SELF, ["u64", "u64"]),
    Fn("ap_unit", SELF, ["u64", "u64"], ret="unit", is_async=True),
    Fn("ap_unit0", SELF, [], ret="unit", is_async=True),
    Fn("ap_default", SELF, ["u64", "u64"], is_async=True, default_body=True),
])
trait_section("APlainH", "self", [
    Fn("ap_moved", SELF, ["tracked", "u64"], is_async=True),
    Fn("ap_ref", SELF, ["refa", "u64"], ret="refarg", is_async=True),
])
trait_section("ARef", "ref", [
    Fn("ar1", SELF, ["u64", "u64"], is_async=True),
    Fn("ar2", SELF, ["u64", "u64"], is_async=True),
    Fn("ar_unit", SELF, ["u64", "u64"], ret="unit", is_async=True),
    Fn("ar_sync", SELF, ["u64", "u64"]),
    Fn("ar0", SELF, [], is_async=True),
    Fn("ar_refs", SELF, ["ref", "ref"], is_async=True),
], async_trait=True, supers=": Sync + 'static")
trait_section("ABorrow", "borrow", [
    Fn("ab1", SELF, ["u64", "u64"], is_async=True),
    Fn("ab_unit", SELF, ["u64"], ret="unit", is_async=True),
    Fn("ab0", SELF, [], is_async=True),
    Fn("ab_refs", SELF, ["ref", "ref"], is_async=True),
], async_trait=True, supers=": Sync + 'static")


# ==== systematic matrices for entraited traits and dependency inversion ====
TRAIT_RETS_H = [r for r in MATRIX_RETS if r not in HOMOG_RETS]
trait_section("PlainK", "self", [Fn(f"pk_{r}", SELF, ["u64", "u64"], ret=r) for r in HOMOG_RETS]
              + [Fn(f"apk_{r}", SELF, ["u64", "u64"], ret=r, is_async=True) for r in HOMOG_RETS])
trait_section("PlainKH", "self", [Fn(f"pkh_{r}", SELF, ["u64", "u64"], ret=r) for r in TRAIT_RETS_H]
              + [Fn(f"apkh_{r}", SELF, ["u64", "u64"], ret=r, is_async=True) for r in TRAIT_RETS_H])
DYN_RETS_H = [r for r in TRAIT_RETS_H if r not in ("implfp", "iter", "implfn")]
trait_section("ByRefKH", "ref", [Fn(f"rkh_{r}", SELF, ["u64", "u64"], ret=r) for r in DYN_RETS_H], supers=": 'static")
trait_section("ByBorrowKH", "borrow", [Fn(f"bkh_{r}", SELF, ["u64", "u64"], ret=r) for r in DYN_RETS_H], supers=": 'static")
trait_section("ARefKH", "ref", [Fn(f"arkh_{r}", SELF, ["u64", "u64"], ret=r, is_async=True) for r in DYN_RETS_H],
              async_trait=True, supers=": Sync + 'static")
trait_section("PlainKK", "self", [Fn(f"pkk_{k}", SELF, [k, "u64"]) for k in MATRIX_KINDS if k not in ("iter", "into", "fn", "fnsend", "fnmut", "fnonce")])
trait_section("PlainAr", "self", [Fn(f"par{n}", SELF, ["u64"] * n) for n in range(0, 9)])
trait_section("ByRefAr", "ref", [Fn(f"rar{n}", SELF, ["u64"] * n) for n in range(0, 7)], supers=": 'static")

trait_section("PlainNames", "self", [Fn(f"pn_{nme}", SELF, ["u64", f"name={nme}:u64"]) for nme in SUSPICIOUS])
trait_section("ByRefNames", "ref", [Fn(f"rn_{nme}", SELF, [f"name={nme}:u64", "u64"]) for nme in SUSPICIOUS], supers=": 'static")
trait_section("ByBorrowNames", "borrow", [Fn(f"bn_{nme}", SELF, ["u64", f"name={nme}:u64"]) for nme in SUSPICIOUS[:8]], supers=": 'static")
trait_section("APlainNames", "self", [Fn(f"apn_{nme}", SELF, ["u64", f"name={nme}:u64"], is_async=True) for nme in SUSPICIOUS[:10]])
trait_section("PlainSelfRef", "self", [
    Fn("psr_target", SELF, ["name=target:selfref", "u64"]),
    Fn("psr_other", SELF, ["u64", "name=other:selfref"]),
    Fn("apsr_this", SELF, ["name=this:selfref", "u64"], is_async=True),
])
trait_section("PlainDual", "self", [
    Fn("pdu1", SELF, ["u64", "u64"]),
    Fn("pdu_lt", SELF, ["refa", "u64"], ret="refarg"),
    Fn("pdu_unit", SELF, ["u64"], ret="unit"),
], supers=": 'static", dual=True)
trait_section("ByRefDual", "ref", [
    Fn("rdu1", SELF, ["u64", "u64"]),
    Fn("rdu_lt", SELF, ["refa", "u64"], ret="refarg"),
], supers=": 'static", dual=True)
trait_section("ByBorrowDual", "borrow", [
    Fn("bdu1", SELF, ["u64", "u64"]),
    Fn("bdu_lt", SELF, ["refa", "u64"], ret="refarg"),
], supers=": 'static", dual=True)
trait_section("ARefDual", "ref", [
    Fn("ardu1", SELF, ["u64", "u64"], is_async=True),
    Fn("ardu_lt", SELF, ["refa", "u64"], ret="refarg", is_async=True),
], async_trait=True, supers=": Sync + 'static", dual=True)
trait_section("PlainFut", "self", [
    Fn("pf_drop", SELF, ["u64", "u64"], ret="implfut_drop"),
    Fn("pf_poll", SELF, ["u64", "u64"], ret="implfut"),
    Fn("pf_plain", SELF, ["u64", "u64"]),
    Fn("pf_drop0", SELF, [], ret="implfut_drop"),
    Fn("apf_async", SELF, ["u64", "u64"], is_async=True),
])
corpus.append("pub trait SyncMarker: Send + Sync {}\nimpl SyncMarker for Prov {}\nimpl<const K: u16> SyncMarker for App<K> {}\nimpl<T: Send + Sync> SyncMarker for Impl<T> {}\n")
# `Sync` only implied by a supertrait; the application hands out decoys through `+ Sync` / `+ Send`
trait_section("ARefInd", "ref", [
    Fn("ari1", SELF, ["u64", "u64"], is_async=True),
    Fn("ari_sync", SELF, ["u64", "u64"]),
], async_trait=True, supers=": SyncMarker + 'static", flavours=("Sync", "Send", "Send + Sync"))
trait_section("ABorrowInd", "borrow", [
    Fn("abi1", SELF, ["u64", "u64"], is_async=True),
    Fn("abi_unit", SELF, ["u64"], ret="unit", is_async=True),
], async_trait=True, supers=": SyncMarker + 'static", flavours=("Sync", "Send + Sync"))
trait_section("ByRefFl", "ref", [Fn("rfl1", SELF, ["u64", "u64"]), Fn("rfl2", SELF, ["u64", "u64"])], supers=": 'static", flavours=("Sync", "Send", "Send + Sync"))
trait_section("ByBorrowFl", "borrow", [Fn("bfl1", SELF, ["u64", "u64"])], supers=": 'static", flavours=("Sync", "Send + Sync"))
trait_section("ARefFl", "ref", [Fn("arfl1", SELF, ["u64", "u64"], is_async=True)], async_trait=True, supers=": Sync + 'static", flavours=("Sync", "Send + Sync"))
trait_section("PlainPattr", "self", [Fn("ppattr1", SELF, ["cfgattr:u64", "u64"]), Fn("ppattr2", SELF, ["u64", "cfgattr:u64", "u64"]), Fn("appattr", SELF, ["allowattr:u64", "u64"], is_async=True)])
trait_section("ByRefPattr", "ref", [Fn("rpattr1", SELF, ["cfgattr:u64", "u64"])], supers=": 'static")
trait_section("ByBorrowPattr", "borrow", [Fn("bpattr1", SELF, ["cfgattr:u64", "u64", "u64"])], supers=": 'static")
trait_section("PlainMutw", "self", [Fn("pmutw", SELF, ["mutw", "u64"]), Fn("apmutw", SELF, ["u64", "mutw"], is_async=True)])
trait_section("ByRefMutw", "ref", [Fn("rmutw", SELF, ["mutw", "u64"])], supers=": 'static")
trait_section("PlainUnd", "self", [Fn("pund1", SELF, ["u64", "name=limit:u64", "name=_limit:u64"]), Fn("pund2", SELF, ["name=_x:u64", "name=__x:u64", "name=x:u64"]),
                                   Fn("apund", SELF, ["name=_v:u64", "name=v:u64"], is_async=True)])
trait_section("ByRefUnd", "ref", [Fn("rund1", SELF, ["name=limit:u64", "name=_limit:u64"]), Fn("rund2", SELF, ["name=__k:u64", "name=_k:u64"])], supers=": 'static")
trait_section("ByBorrowUnd", "borrow", [Fn("bund1", SELF, ["name=_limit:u64", "name=limit:u64"])], supers=": 'static")
trait_section("PlainPre", "self", [Fn("tget", SELF, ["u64", "u64"]), Fn("tget_all", SELF, ["u64", "u64"]), Fn("tget_", SELF, ["u64", "u64"]), Fn("tge", SELF, ["u64", "u64"])])
trait_section("ByRefRI", "ref", [Fn("rri1", SELF, ["u64", "u64"]), Fn("rri_unit", SELF, ["u64"], ret="unit")], refimpl=True)
trait_section("ByBorrowRI", "borrow", [Fn("bri1", SELF, ["u64", "u64"]), Fn("bri2", SELF, ["u64", "u64"])], refimpl=True)
trait_section("ARefRI", "ref", [Fn("arri1", SELF, ["u64", "u64"], is_async=True), Fn("arri_sync", SELF, ["u64", "u64"])], async_trait=True, supers=": Sync", refimpl=True)
trait_section("ByBorrowX", "borrow", [Fn("bx1", SELF, ["u64", "u64"]), Fn("bx_unit", SELF, ["u64"], ret="unit")], supers=": 'static", cross=True)
trait_section("ByRefX", "ref", [Fn("rx1", SELF, ["u64", "u64"]), Fn("rx2", SELF, ["u64", "u64"])], supers=": 'static", cross=True)
trait_section("ABorrowX", "borrow", [Fn("abx1", SELF, ["u64", "u64"], is_async=True), Fn("abx_sync", SELF, ["u64", "u64"])],
              async_trait=True, supers=": Sync + 'static", cross=True)
trait_section("ARefX", "ref", [Fn("arx1", SELF, ["u64", "u64"], is_async=True), Fn("arx_sync", SELF, ["u64", "u64"])],
              async_trait=True, supers=": Sync + 'static", cross=True)
# option order and company: `delegate_by` before / after `?Send` and other options; the application
# also implements the trait itself (falling back to `Self` delegation is a mis-forwarding)
trait_section("NsRefA", "ref", [Fn("nra1", SELF, ["u64", "u64"], is_async=True), Fn("nra_sync", SELF, ["u64", "u64"])],
              async_trait=True, supers=": 'static", nosend=True, dual=True)
trait_section("NsRefB", "ref", [Fn("nrb1", SELF, ["u64", "u64"]), Fn("nrb2", SELF, ["u64", "u64"])], supers=": 'static", opts_pre="?Send", dual=True)
trait_section("NsBorrowA", "borrow", [Fn("nba1", SELF, ["u64", "u64"]), Fn("nba_unit", SELF, ["u64"], ret="unit")], supers=": 'static", nosend=True, dual=True)
trait_section("OptRefA", "ref", [Fn("ora1", SELF, ["u64", "u64"])], supers=": 'static", opts_post="unimock = false", dual=True)
trait_section("OptRefB", "ref", [Fn("orb1", SELF, ["u64", "u64"])], supers=": 'static", opts_pre="mockall = false", opts_post="unimock = false", dual=True)
trait_section("OptBorrowA", "borrow", [Fn("oba1", SELF, ["u64", "u64"])], supers=": 'static", opts_pre="unimock = false, mockall = false", dual=True)
trait_section("NsPlain", "self", [Fn("nsp1", SELF, ["u64", "u64"], is_async=True), Fn("nsp_sync", SELF, ["u64", "u64"])], nosend=True)
# entraited traits with a mock API: mockable, never un-mockable
_ut = [Fn("utr1", SELF, ["u64", "u64"]), Fn("utr_unit", SELF, ["u64"], ret="unit"), Fn("autr1", SELF, ["u64", "u64"], is_async=True),
       Fn("utr_default", SELF, ["u64", "u64"], default_body=True), Fn("utr_default0", SELF, [], default_body=True)]
trait_section("UTr", "self", _ut, opts_pre="mock_api = UTrMock", macro_name="entrait_export")
_utr = [Fn("utrr1", SELF, ["u64", "u64"]), Fn("utrr2", SELF, ["u64", "u64"]), Fn("utrr_default", SELF, ["u64", "u64"], default_body=True)]
trait_section("UTrRef", "ref", _utr, supers=": 'static", opts_pre="mock_api = UTrRefMock", macro_name="entrait_export")
UNMOCK_NEG.extend(_ut + _utr)
def tagged_trait(name, delegate, methods):
    """generic entraited trait whose type parameters appear in NO method signature ("tags"); the
    application provides it for <TagX, TagY> (real) and for <TagY, TagX> (decoy, function id 60006)"""
    cid = new_container()
    cfg = ccfg(cid)
    for fn in methods:
        fn.cid = cid
        fn.container_hetero = False
        FN_COUNTER[0] += 2
        fn.fn_id = FN_COUNTER[0] - 1
        fn.fn_ids = (fn.fn_id, fn.fn_id + 1)
        fn.method_id = METHOD_COUNTER[0]
        METHOD_COUNTER[0] += 1
        fn.section = "trait"
        assert fn.name not in ALL_FNS, fn.name
        fn.props = ["C06"] + (["C14"] if delegate == "self" else [])
        fn.dynamic = delegate != "self"
        METHODS.append(fn)
        ALL_FNS[fn.name] = fn
    opt = {"self": "", "ref": "delegate_by = ref", "borrow": "delegate_by = Borrow"}[delegate]
    sup = "" if delegate == "self" else ": 'static"
    tparams = "A, B" if delegate == "self" else "A: 'static, B: 'static"
    text = f"{cfg}#[entrait({opt})]\npub trait {name}<{tparams}>{sup} {{\n" + "".join(decl_text(m) for m in methods) + "}\n"
    real, decoy = "<TagX, TagY>", "<TagY, TagX>"

    def decoy_fns():
        out = ""
        for m in methods:
            ps = ["&self"] + [p.sig(i, m.name) for i, p in enumerate(m.params)]
            asy = "async " if m.is_async else ""
            out += (f"    {asy}fn {m.name}({', '.join(ps)}){RET_TEXT[m.ret]} {{\n        let __f = sim::enter(60006, sim::addr(self), &[]);\n"
                    + "\n".join("        " + l for l in ret_tail(m, "")) + "\n    }\n")
        return out
    if delegate == "self":
        text += f"{cfg}impl<const K: u16> {name}{real} for App<K> {{\n" + "".join(self_impl_fn_text(m, f"{m.fn_id} + K") for m in methods) + "}\n"
        text += f"{cfg}impl<const K: u16> {name}{decoy} for App<K> {{\n" + decoy_fns() + "}\n"
        for m in methods:
            m.recv_expr = "sim::addr(app.as_ref())"
            m.lookups = 0
            m.direct_call = f"{name}::{real}::{m.name}(app.as_ref(), {{args}})"
    else:
        field = f"prov_{name.lower()}"
        APP_FIELDS.append(field)
        text += f"{cfg}impl {name}{real} for Prov {{\n" + "".join(self_impl_fn_text(m, f"{m.fn_id} + self.which") for m in methods) + "}\n"
        text += f"{cfg}impl {name}{decoy} for Prov {{\n" + decoy_fns() + "}\n"
        k = lookup_kind(name)
        tr, fnm = ("AsRef", "as_ref") if delegate == "ref" else ("::core::borrow::Borrow", "borrow")
        text += (f"{cfg}impl<const K: u16> {tr}<dyn {name}{real}> for App<K> {{\n    fn {fnm}(&self) -> &(dyn {name}{real} + 'static) {{\n"
                 f"        sim::lookup({k});\n        &self.{field}\n    }}\n}}\n")
        text += (f"{cfg}impl<const K: u16> {tr}<dyn {name}{decoy}> for App<K> {{\n    fn {fnm}(&self) -> &(dyn {name}{decoy} + 'static) {{\n"
                 f"        &self.{field}\n    }}\n}}\n")
        for m in methods:
            m.recv_expr = f"sim::addr(&app.{field})"
            m.lookups = 1
            m.lookup_kind = k
            m.direct_call = f"{name}::{real}::{m.name}(&app.{field}, {{args}})"
    for m in methods:
        m.trait_call = f"{name}::{real}::{m.name}(app, {{args}})"
    corpus.append(cmark(cid) + text + cmark(0))
    bundle_traits.append((name + real, False))


def copy_supertrait():
    """`#[entrait] trait Gauge: UnitSup` where `UnitSup: Copy` has a BY-VALUE method with the same name
    as Gauge's `&self` method (decoy, function id 60009); the provider is a small Copy type"""
    cid = new_container()
    cfg = ccfg(cid)
    ms = [Fn("gscale", SELF, ["u64", "u64"]), Fn("goffset", SELF, ["u64", "u64"]), Fn("agscale", SELF, ["u64", "u64"], is_async=True)]
    for fn in ms:
        fn.cid = cid
        fn.container_hetero = False
        FN_COUNTER[0] += 2
        fn.fn_id = FN_COUNTER[0] - 1
        fn.fn_ids = (fn.fn_id, fn.fn_id)
        fn.method_id = METHOD_COUNTER[0]
        METHOD_COUNTER[0] += 1
        fn.section = "trait"
        fn.props = ["C06", "C14"]
        fn.dynamic = False
        METHODS.append(fn)
        ALL_FNS[fn.name] = fn
        fn.lookups = 0
        fn.trait_call = f"Gauge::{fn.name}(&app.copy_impl, {{args}})"
        fn.direct_call = f"Gauge::{fn.name}(app.copy_impl.as_ref(), {{args}})"
        fn.recv_expr = "sim::addr(app.copy_impl.as_ref())"
    text = cmark(cid)
    text += (f"{cfg}pub trait UnitSup: Copy {{\n    fn gscale(self, p0: u64, p1: u64) -> u64;\n    fn goffset(self, p0: u64, p1: u64) -> u64;\n}}\n"
             f"{cfg}#[entrait]\npub trait Gauge: UnitSup {{\n    fn gscale(&self, p0: u64, p1: u64) -> u64;\n    fn goffset(&self, p0: u64, p1: u64) -> u64;\n    async fn agscale(&self, p0: u64, p1: u64) -> u64;\n}}\n"
             f"{cfg}impl UnitSup for CopyApp {{\n")
    for nm in ("gscale", "goffset"):
        text += f"    fn {nm}(self, p0: u64, p1: u64) -> u64 {{\n        let __f = sim::enter(60009, 0, &[]);\n        let _ = (p0, p1);\n        sim::exit(__f, &[])\n    }}\n"
    text += f"}}\n{cfg}impl<T: UnitSup> UnitSup for Impl<T> {{\n"
    for nm in ("gscale", "goffset"):
        text += f"    fn {nm}(self, p0: u64, p1: u64) -> u64 {{\n        UnitSup::{nm}(self.into_inner(), p0, p1)\n    }}\n"
    text += f"}}\n{cfg}impl Gauge for CopyApp {{\n" + "".join(self_impl_fn_text(m, f"{m.fn_id}") for m in ms) + "}\n"
    corpus.append(text + cmark(0))


corpus.append("#[derive(Clone, Copy)]\npub struct CopyApp {\n    pub base: u64,\n}\n")
copy_supertrait()
def unsized_param_trait(name, delegate, methods):
    """generic entraited trait with a `?Sized` type parameter, instantiated with `str`; the application
    hands out the provider AND implements the trait itself (decoy 60003: reaching it means Impl<T>
    did not implement the trait for the unsized instantiation and the call fell through Deref)"""
    cid = new_container()
    cfg = ccfg(cid)
    for fn in methods:
        fn.cid = cid
        fn.container_hetero = False
        FN_COUNTER[0] += 2
        fn.fn_id = FN_COUNTER[0] - 1
        fn.fn_ids = (fn.fn_id, fn.fn_id + 1)
        fn.method_id = METHOD_COUNTER[0]
        METHOD_COUNTER[0] += 1
        fn.section = "trait"
        fn.props = ["C06"]
        fn.dynamic = True
        METHODS.append(fn)
        ALL_FNS[fn.name] = fn
    opt = {"ref": "delegate_by = ref", "borrow": "delegate_by = Borrow"}[delegate]
    field = f"prov_{name.lower()}"
    APP_FIELDS.append(field)
    k = lookup_kind(name)
    text = cmark(cid)
    text += f"{cfg}#[entrait({opt})]\npub trait {name}<K: ?Sized + 'static>: 'static {{\n" + "".join(decl_text(m) for m in methods) + "}\n"
    text += f"{cfg}impl {name}<str> for Prov {{\n" + "".join(self_impl_fn_text(m, f"{m.fn_id} + self.which") for m in methods) + "}\n"
    tr, fnm = ("AsRef", "as_ref") if delegate == "ref" else ("::core::borrow::Borrow", "borrow")
    text += (f"{cfg}impl<const K: u16> {tr}<dyn {name}<str>> for App<K> {{\n    fn {fnm}(&self) -> &(dyn {name}<str> + 'static) {{\n"
             f"        sim::lookup({k});\n        &self.{field}\n    }}\n}}\n")
    text += f"{cfg}impl<const K: u16> {name}<str> for App<K> {{\n"
    for m in methods:
        ps = ["&self"] + [p.sig(i, m.name) for i, p in enumerate(m.params)]
        text += (f"    fn {m.name}({', '.join(ps)}){RET_TEXT[m.ret]} {{\n        let __f = sim::enter(60003, sim::addr(self), &[]);\n"
                 + "\n".join("        " + l for l in ret_tail(m, "")) + "\n    }\n")
    text += "}\n"
    for m in methods:
        m.recv_expr = f"sim::addr(&app.{field})"
        m.lookups = 1
        m.lookup_kind = k
        m.trait_call = f"app.{m.name}({{args}})"
        m.direct_call = f"{name}::<str>::{m.name}(&app.{field}, {{args}})"
    corpus.append(text + cmark(0))


unsized_param_trait("ByRefUnsized", "ref", [Fn("ruz1", SELF, ["u64", "u64"]), Fn("ruz_unit", SELF, ["u64"], ret="unit")])
unsized_param_trait("ByBorrowUnsized", "borrow", [Fn("buz1", SELF, ["u64", "u64"])])
corpus.append("pub struct TagX;\npub struct TagY;\n")
tagged_trait("PlainTags", "self", [Fn("ptag1", SELF, ["u64", "u64"]), Fn("ptag_unit", SELF, ["u64"], ret="unit"), Fn("aptag1", SELF, ["u64", "u64"], is_async=True)])
tagged_trait("ByRefTags", "ref", [Fn("rtag1", SELF, ["u64", "u64"]), Fn("rtag2", SELF, ["u64", "u64"])])
tagged_trait("ByBorrowTags", "borrow", [Fn("btag1", SELF, ["u64", "u64"])])
_ds = [Fn("dsg1", SELF, ["u64", "u64"], is_async=True), Fn("dsg_unit", SELF, ["u64"], ret="unit", is_async=True), Fn("dsg0", SELF, [], is_async=True),
       Fn("dsg_plain", SELF, ["u64", "u64"], is_async=True)]
for _m in _ds[:3]:
    _m.desugared_provider = True
trait_section("PlainDesugared", "self", _ds)
trait_section("PlainDoc", "self", [
    Fn("pdoc1", SELF, ["u64", "u64"], attrs="/// documented method"),
    Fn("pdoc2", SELF, ["u64", "u64"], attrs="#[doc(hidden)]\n    #[allow(unused_variables)]"),
    Fn("apdoc3", SELF, ["u64", "u64"], is_async=True, attrs="/** block */\n    #[must_use]"),
    Fn("pdoc_inline", SELF, ["u64", "u64"], attrs="#[allow(clippy::too_many_arguments)]"),
])
trait_section("ByRefDoc", "ref", [Fn("rdoc1", SELF, ["u64", "u64"], attrs="/// documented"), Fn("rdoc2", SELF, ["u64", "u64"], attrs="#[doc(hidden)]")], supers=": 'static")
trait_section("PlainInto", "self", [Fn("pinto_never", SELF, ["u64", "intonever"]), Fn("pinto_conv", SELF, ["intosole", "u64"])])
trait_section("PlainSame", "self", [Fn("psame", SELF, ["u64", "same:u64"]), Fn("psame3", SELF, ["u64", "u64", "same:u64"]),
                                    Fn("psame_first", SELF, ["same:u64", "u64"]), Fn("psame_mid", SELF, ["u64", "same:u64", "u64"]),
                                    Fn("apsame_first", SELF, ["same:u64", "u64"], is_async=True)])
trait_section("ByRefSame", "ref", [Fn("rsame_first", SELF, ["same:u64", "u64"]), Fn("rsame_mid", SELF, ["u64", "same:u64", "u64"])], supers=": 'static")

trait_section("PlainPerm", "self", [Fn(f"pperm{_i}", SELF, [f"name={n}:u64" for n in _pm]) for _i, _pm in enumerate(_PERMS)])
trait_section("ByRefPerm", "ref", [Fn(f"rperm{_i}", SELF, [f"name={n}:u64" for n in _pm]) for _i, _pm in enumerate(_PERMS)], supers=": 'static")
trait_section("Plain24", "self", [Fn(f"p24_{i}", SELF, ["u64", "u64"]) for i in range(24)])
trait_section("PlainOdd", "self", [Fn(f"{nme.replace('r#', 'raw_')}_t", SELF, [f"name={nme}:u64", "u64"]) for nme in ODD_NAMES if nme not in ("a", "x1")])
trait_section("PlainAr12", "self", [Fn("par12", SELF, ["u64"] * 12), Fn("apar12", SELF, ["u64"] * 12, is_async=True)])

def _dyn_ok(p):
    return "impl " not in KINDS[p.split(":")[-1]][0] and p.split(":")[-1] not in ("gen", "genm")


_TRAIT_RETS = ["u64"] * 5 + ["unit", "result", "opt", "boolr", "tuple2", "tracked", "resunit"]
for _t in range(10):
    _k = _rng.choice([1, 2, 3, 4, 6])
    _ms = []
    for _j in range(_k):
        _asy = _rng.random() < 0.4
        _ms.append(Fn(f"rt{_t}_{_j}", SELF, _rand_params(_rng.choice([0, 1, 2, 3, 4]), _asy, f"rt{_t}_{_j}", allow_destr=False), ret=_rng.choice(_TRAIT_RETS), is_async=_asy))
    trait_section(f"Rtrait{_t}", "self", _ms)
for _t in range(6):
    _k = _rng.choice([1, 2, 3, 5])
    _ms = [Fn(f"rr{_t}_{_j}", SELF, [p for p in _rand_params(_rng.choice([0, 1, 2, 3]), False, f"rr{_t}_{_j}", allow_destr=False) if _dyn_ok(p)],
              ret=_rng.choice(["u64", "u64", "unit", "opt", "tuple2"])) for _j in range(_k)]
    trait_section(f"Rref{_t}", _rng.choice(["ref", "borrow"]), _ms, supers=": 'static")
# the slot trait used by ret_refdeps (plain accessor, not recorded)
corpus.append("""#[entrait]
pub trait SlotRef {
    fn slot_ref(&self) -> &u64;
}
impl<const K: u16> SlotRef for App<K> {
    fn slot_ref(&self) -> &u64 {
        &self.slot
    }
}
""")
bundle_traits.append(("SlotRef", False))

# --------------------------------------------------------------------------
# dependency inversion (C07)
# --------------------------------------------------------------------------


IMPL_FILLERS = ["    pub const SPAN: u32 = 1;\n", "    pub const NAME: &'static str = \"x\";\n", "    #[allow(dead_code)]\n    const HIDDEN: u8 = 2;\n"]


def inversion(trait, impl_trait, mode, methods, delegate_ident=None, async_trait=False, path_targets=False, fillers=(), dual=False, nosend=False, core="ref", cross=False):
    """methods: list of (decl Fn with SELF deps, impl deps form, calls);
    path_targets: the impl blocks are written for `module::Type` paths while a
    same-named decoy type with same-named inherent functions is in scope"""
    at = ("#[async_trait::async_trait(?Send)]\n" if nosend else "#[async_trait::async_trait]\n") if async_trait else ""
    ns = ", ?Send" if nosend else ""
    decls = []
    het = any(d.hetero for d, _, _ in methods)
    cid = new_container()
    cfg = ccfg(cid)
    for decl, _, _calls in methods:
        decl.cid = cid
        decl.container_hetero = het
        decl.calls = list(_calls)
        FN_COUNTER[0] += 2
        decl.fn_id = FN_COUNTER[0] - 1
        decl.fn_ids = (decl.fn_id, decl.fn_id + 1)
        decl.method_id = METHOD_COUNTER[0]
        METHOD_COUNTER[0] += 1
        decl.section = "inversion"
        assert decl.name not in ALL_FNS, decl.name
        decl.dynamic = mode == "dyn" or async_trait
        decl.props = ["C07"] + ([] if decl.dynamic else ["C14"])
        METHODS.append(decl)
        ALL_FNS[decl.name] = decl
        decls.append(decl)
    if mode == "static":
        attr = f"#[entrait({impl_trait}, delegate_by = {delegate_ident}{ns})]"
    else:
        attr = f"#[entrait({impl_trait}, delegate_by = {'ref' if core == 'ref' else 'Borrow'}{ns})]"
    text = f"{cfg}{attr}\n{at}pub trait {trait} {{\n" + "".join(decl_text(d) for d in decls) + "}\n"
    targets = [f"{trait}TargetA", f"{trait}TargetB"]
    if path_targets:
        tn = f"{trait}Tgt"
        targets = [f"{trait.lower()}_pa::{tn}", f"{trait.lower()}_pb::{tn}"]
        text += f"pub mod {trait.lower()}_pa {{\n    pub struct {tn}(pub u64);\n}}\npub mod {trait.lower()}_pb {{\n    pub struct {tn}(pub u64);\n}}\n"
        # the decoy: same last path segment, same function names, compatible signatures
        text += f"pub struct {tn}(pub u64);\nimpl {tn} {{\n"
        for decl, deps, calls in methods:
            g = method_generics(decl)
            g = (g[:-1] + ", D>") if g else "<D>"
            ps = ["deps: &D"] + [p.sig(i, decl.name) for i, p in enumerate(decl.params)]
            asy = "async " if decl.is_async else ""
            text += (f"    pub {asy}fn {decl.name}{g}({', '.join(ps)}) -> u64 {{\n        let __f = sim::enter(60001, sim::addr(deps), &[]);\n"
                     f"        sim::exit(__f, &[])\n    }}\n")
        text += "}\n"
    if dual:
        # a decoy implementation handed out through the OTHER `dyn` flavour (with `+ Sync` where
        # the generated code must ask for the plain object, and the other way round):
        # reaching it (function id 60005) is a mis-routing
        decoy = f"{trait}Decoy"
        iattr = "#[entrait]" if mode == "static" else "#[entrait(ref)]"
        text += f"pub struct {decoy}(pub u64);\n{cfg}{iattr}\n{at}impl {impl_trait} for {decoy} {{\n"
        for decl, deps, calls in methods:
            g = method_generics(decl)
            g = (g[:-1] + ", D>") if g else "<D>"
            ps = ["deps: &D"] + [p.sig(i, decl.name) for i, p in enumerate(decl.params)]
            asy = "async " if decl.is_async else ""
            text += (f"    pub {asy}fn {decl.name}{g}({', '.join(ps)}){RET_TEXT[decl.ret]} {{\n        let __f = sim::enter(60005, sim::addr(deps), &[]);\n"
                     + "\n".join("        " + l for l in ret_tail(decl, "")) + "\n    }\n")
        text += "}\n"
        APP_FIELDS_TYPED.append((f"decoy_{trait.lower()}", decoy))
    for which, target in enumerate(targets):
        if not path_targets:
            text += f"pub struct {target}(pub u64);\n"
        iattr = "#[entrait]" if mode == "static" else "#[entrait(ref)]"
        text += f"{cfg}{iattr}\n{at}impl {impl_trait} for {target} {{\n"
        for mi, (decl, deps, calls) in enumerate(methods):
            if mi in fillers:
                text += IMPL_FILLERS[mi % len(IMPL_FILLERS)].replace("SPAN", f"SPAN{mi}").replace("NAME", f"NAME{mi}").replace("HIDDEN", f"HIDDEN{mi}")
            f = Fn(decl.name, deps, [], ret=decl.ret, is_async=decl.is_async, calls=calls, vis="pub", below=getattr(decl, "impl_below", ""))
            # the block may NAME its parameters differently from the trait declaration (same types)
            f.params = getattr(decl, "impl_params", None) or decl.params
            f.fn_id = decl.fn_ids[which]
            text += fn_text(f, indent="    ")
        text += "}\n"
        if mode == "static":
            text += f"{cfg}impl {delegate_ident}<Self> for App<{which}> {{\n    type Target = {target};\n}}\n"
        else:
            field = f"dyn_{trait.lower()}_{'ab'[which]}"
            APP_FIELDS_TYPED.append((field, target))
            if cross:
                APP_FIELDS_TYPED.append((field + "x", target))
            k = lookup_kind(trait)
            # entrait asks for `+ Sync` exactly when the trait has an async METHOD (an `#[async_trait]`
            # attribute on a trait with sync methods only does not count)
            sync = " + Sync" if any(d.is_async for d in decls) else ""
            ctr, cfn = ("AsRef", "as_ref") if core == "ref" else ("::core::borrow::Borrow", "borrow")
            text += (f"{cfg}impl {ctr}<dyn {impl_trait}<Self>{sync}> for App<{which}> {{\n"
                     f"    fn {cfn}(&self) -> &(dyn {impl_trait}<Self>{sync} + 'static) {{\n"
                     f"        sim::lookup({k});\n        &self.{field}\n    }}\n}}\n")
            if cross:
                # a competing target handed out through the OTHER core trait (the other application's
                # target, so every function id it reaches is the wrong one)
                otr, ofn = ("::core::borrow::Borrow", "borrow") if core == "ref" else ("AsRef", "as_ref")
                ofield = f"dyn_{trait.lower()}_{'ba'[which]}"
                text += (f"{cfg}impl {otr}<dyn {impl_trait}<Self>{sync}> for App<{which}> {{\n"
                         f"    fn {ofn}(&self) -> &(dyn {impl_trait}<Self>{sync} + 'static) {{\n"
                         f"        &self.{ofield}x\n    }}\n}}\n")
            if dual:
                osync = "" if sync else " + Sync"
                text += (f"{cfg}impl AsRef<dyn {impl_trait}<Self>{osync}> for App<{which}> {{\n"
                         f"    fn as_ref(&self) -> &(dyn {impl_trait}<Self>{osync} + 'static) {{\n"
                         f"        &self.decoy_{trait.lower()}\n    }}\n}}\n")
    for d in decls:
        d.trait_call = f"app.{d.name}({{args}})"
        d.direct_call = (f"{trait.lower()}_p{{ab}}::{trait}Tgt::{d.name}(app, {{args}})" if path_targets
                         else f"{trait}Target{{AB}}::{d.name}(app, {{args}})")
        d.recv_expr = "sim::addr(app)"
        d.lookups = 0 if mode == "static" else 1
        if mode != "static":
            d.lookup_kind = lookup_kind(trait)
    corpus.append(cmark(cid) + text + cmark(0))
    bundle_traits.append((trait, het))


APP_FIELDS_TYPED = []
inversion("Inv", "InvImpl", "static", [
    (Fn("i1", SELF, ["u64", "u64"]), ("gen", ["F0"]), ["f0"]),
    (Fn("i2", SELF, ["u64", "u64"]), ("impl", ["F1"]), ["f1"]),
    (Fn("i4", SELF, ["u64", "u64", "u64", "u64"]), ("where", ["F0"]), ["f0"]),
    (Fn("i0", SELF, []), ("any", []), []),
    (Fn("i_unit", SELF, ["u64", "u64"], ret="unit"), ("impl", ["F0"]), ["f0"]),
    (Fn("i_default", SELF, ["u64", "u64"], default_body=True), ("impl", ["F0"]), ["f0"]),
    (Fn("i6", SELF, ["u64"] * 6), ("any", []), []),
], delegate_ident="DelegateInv")
inversion("InvH", "InvHImpl", "static", [
    (Fn("i3", SELF, ["refa", "u64"], ret="refarg"), ("any", []), []),
    (Fn("i_moved", SELF, ["tracked", "u64"]), ("impl", ["F0", "F1"]), ["f0", "f1"]),
    (Fn("i_moved2", SELF, ["tracked", "u64"]), ("impl", ["F0"]), ["f0"]),
    (Fn("i_fn", SELF, ["fn", "u64"]), ("impl", ["F0"]), ["f0"]),
    (Fn("i_str", SELF, ["str", "string"]), ("any", []), []),
], delegate_ident="DelegateInvH")
inversion("InvP", "InvPImpl", "static", [
    (Fn("ip1", SELF, ["u64", "u64"]), ("gen", ["F0"]), ["f0"]),
    (Fn("ip2", SELF, ["u64", "u64"]), ("any", []), []),
], delegate_ident="DelegateInvP", path_targets=True)
inversion("DynInvP", "DynInvPImpl", "dyn", [
    (Fn("dp1", SELF, ["u64", "u64"]), ("impl", ["F0"]), ["f0"]),
    (Fn("dp2", SELF, ["u64", "u64"]), ("any", []), []),
], path_targets=True)
inversion("InvFill", "InvFillImpl", "static", [(Fn(f"ifill_{i}", SELF, ["u64", "u64"]), ("impl", ["F0"]), ["f0"]) for i in range(5)],
          delegate_ident="DelegateInvFill", fillers=(0, 2))
inversion("AInvFill", "AInvFillImpl", "static", [(Fn(f"aifill_{i}", SELF, ["u64", "u64"], is_async=True), ("impl", ["Af0"]), ["af0"]) for i in range(4)],
          delegate_ident="DelegateAInvFill", fillers=(0, 1))
inversion("DynInvFill", "DynInvFillImpl", "dyn", [(Fn(f"dfill_{i}", SELF, ["u64", "u64"]), ("any", []), []) for i in range(4)], fillers=(0, 3))
inversion("AInv", "AInvImpl", "static", [
    (Fn("ai1", SELF, ["u64", "u64"], is_async=True), ("impl", ["Af0"]), ["af0"]),
    (Fn("ai2", SELF, ["u64", "u64"], is_async=True), ("impl", ["Af1", "F0"]), ["af1", "f0"]),
    (Fn("ai3", SELF, ["u64", "u64", "u64"], is_async=True), ("gen", ["Af0"]), ["af0"]),
    (Fn("ai_sync", SELF, ["u64", "u64"]), ("impl", ["F0"]), ["f0"]),
    (Fn("ai_unit", SELF, ["u64", "u64"], ret="unit", is_async=True), ("impl", ["Af0"]), ["af0"]),
    (Fn("ai_unit0", SELF, [], ret="unit", is_async=True), ("any", []), []),
    (Fn("ai_default", SELF, ["u64", "u64"], is_async=True, default_body=True), ("impl", ["Af0"]), ["af0"]),
], delegate_ident="DelegateAInv")
inversion("AInvH", "AInvHImpl", "static", [
    (Fn("ai_moved", SELF, ["u64", "tracked"], is_async=True), ("gen", ["Af0"]), ["af0"]),
    (Fn("ai_ref", SELF, ["refa", "u64"], ret="refarg", is_async=True), ("any", []), []),
    (Fn("ai_fn", SELF, ["fnsend", "u64"], is_async=True), ("impl", ["Af0"]), ["af0"]),
], delegate_ident="DelegateAInvH")
inversion("DynInv", "DynInvImpl", "dyn", [
    (Fn("d1", SELF, ["u64", "u64"]), ("gen", ["F0"]), ["f0"]),
    (Fn("d2", SELF, ["u64", "u64"]), ("impl", ["F1"]), ["f1"]),
    (Fn("d3", SELF, ["u64", "u64", "u64"]), ("any", []), []),
    (Fn("d_unit", SELF, ["u64", "u64"], ret="unit"), ("impl", ["F0"]), ["f0"]),
    (Fn("d_default", SELF, ["u64", "u64"], default_body=True), ("any", []), []),
])
inversion("DynInvH", "DynInvHImpl", "dyn", [
    (Fn("d_moved", SELF, ["tracked", "u64"]), ("any", []), []),
    (Fn("d_ref", SELF, ["u64", "ref"]), ("impl", ["F0"]), ["f0"]),
])
inversion("ADynInv", "ADynInvImpl", "dyn", [
    (Fn("ad1", SELF, ["u64", "u64"], is_async=True), ("impl", ["Af0"]), ["af0"]),
    (Fn("ad2", SELF, ["u64", "u64"], is_async=True), ("impl", ["Af0"]), ["af0"]),
    (Fn("ad_unit", SELF, ["u64", "u64"], ret="unit", is_async=True), ("impl", ["Af0"]), ["af0"]),
    (Fn("ad_sync", SELF, ["u64", "u64"]), ("any", []), []),
], async_trait=True)


inversion("InvFut", "InvFutImpl", "static", [
    (Fn("if_drop", SELF, ["u64", "u64"], ret="implfut_drop"), ("impl", ["F0"]), ["f0"]),
    (Fn("if_poll", SELF, ["u64", "u64"], ret="implfut"), ("any", []), []),
    (Fn("if_plain", SELF, ["u64", "u64"]), ("any", []), []),
], delegate_ident="DelegateInvFut")
inversion("DynInvDual", "DynInvDualImpl", "dyn", [
    (Fn("dd1", SELF, ["u64", "u64"]), ("impl", ["F0"]), ["f0"]),
    (Fn("dd2", SELF, ["u64", "u64"]), ("any", []), []),
    (Fn("dd_unit", SELF, ["u64"], ret="unit"), ("any", []), []),
], dual=True)
inversion("ADynInvDual", "ADynInvDualImpl", "dyn", [
    (Fn("add1", SELF, ["u64", "u64"], is_async=True), ("impl", ["Af0"]), ["af0"]),
    (Fn("add2", SELF, ["u64", "u64"], is_async=True), ("any", []), []),
    (Fn("add_sync", SELF, ["u64", "u64"]), ("any", []), []),
], async_trait=True, dual=True)
inversion("SDynInvDual", "SDynInvDualImpl", "dyn", [
    (Fn("sdd1", SELF, ["u64", "u64"]), ("impl", ["F0"]), ["f0"]),
    (Fn("sdd_unit", SELF, ["u64"], ret="unit"), ("any", []), []),
], async_trait=True, dual=True)
inversion("NsDynInvDual", "NsDynInvDualImpl", "dyn", [
    (Fn("nsd1", SELF, ["u64", "u64"], is_async=True), ("impl", ["Af0"]), ["af0"]),
    (Fn("nsd2", SELF, ["u64", "u64"], is_async=True), ("any", []), []),
    (Fn("nsd_sync", SELF, ["u64", "u64"]), ("any", []), []),
], async_trait=True, dual=True, nosend=True)
inversion("NsDynInv", "NsDynInvImpl", "dyn", [
    (Fn("ns1", SELF, ["u64", "u64"], is_async=True), ("any", []), []),
    (Fn("ns_unit", SELF, ["u64", "u64"], ret="unit", is_async=True), ("impl", ["Af0"]), ["af0"]),
], async_trait=True, nosend=True)
inversion("NsInv", "NsInvImpl", "static", [
    (Fn("nsi1", SELF, ["u64", "u64"], is_async=True), ("impl", ["Af0"]), ["af0"]),
    (Fn("nsi2", SELF, ["u64", "u64"], is_async=True), ("any", []), []),
], delegate_ident="DelegateNsInv", async_trait=True, nosend=True)
inversion("InvK", "InvKImpl", "static",
          [(Fn(f"ik_{r}", SELF, ["u64", "u64"], ret=r), ("impl", ["F0"]), ["f0"]) for r in HOMOG_RETS]
          + [(Fn(f"aik_{r}", SELF, ["u64", "u64"], ret=r, is_async=True), ("impl", ["Af0"]), ["af0"]) for r in HOMOG_RETS]
          + [(Fn(f"iar{n}", SELF, ["u64"] * n), ("any", []), []) for n in range(0, 9)],
          delegate_ident="DelegateInvK")
inversion("InvKH", "InvKHImpl", "static",
          [(Fn(f"ikh_{r}", SELF, ["u64", "u64"], ret=r), ("impl", ["F0"]), ["f0"]) for r in TRAIT_RETS_H]
          + [(Fn(f"aikh_{r}", SELF, ["u64", "u64"], ret=r, is_async=True), ("impl", ["Af0"]), ["af0"]) for r in TRAIT_RETS_H]
          + [(Fn(f"ikk_{k}", SELF, [k, "u64"]), ("any", []), []) for k in MATRIX_KINDS if k not in ("iter", "into", "fn", "fnsend", "fnmut", "fnonce")],
          delegate_ident="DelegateInvKH")
inversion("DynInvKH", "DynInvKHImpl", "dyn",
          [(Fn(f"dkh_{r}", SELF, ["u64", "u64"], ret=r), ("impl", ["F0"]), ["f0"]) for r in DYN_RETS_H])
inversion("DynInvAr", "DynInvArImpl", "dyn", [(Fn(f"dar{n}", SELF, ["u64"] * n), ("any", []), []) for n in range(0, 7)])

inversion("InvNames", "InvNamesImpl", "static",
          [(Fn(f"in_{nme}", SELF, ["u64", f"name={nme}:u64"]), ("impl", ["F0"]), ["f0"]) for nme in SUSPICIOUS]
          + [(Fn("isame", SELF, ["u64", "same:u64"]), ("any", []), []), (Fn("isame3", SELF, ["u64", "u64", "same:u64"]), ("impl", ["F0"]), ["f0"]),
             (Fn("aisame", SELF, ["u64", "same:u64"], is_async=True), ("impl", ["Af0"]), ["af0"]),
             (Fn("isame_first", SELF, ["same:u64", "u64"]), ("any", []), []), (Fn("isame_mid", SELF, ["u64", "same:u64", "u64"]), ("impl", ["F0"]), ["f0"]),
             (Fn("aisame_first", SELF, ["same:u64", "u64", "u64"], is_async=True), ("impl", ["Af0"]), ["af0"])],
          delegate_ident="DelegateInvNames")
inversion("DynInvNames", "DynInvNamesImpl", "dyn",
          [(Fn(f"dn_{nme}", SELF, [f"name={nme}:u64", "u64"]), ("any", []), []) for nme in SUSPICIOUS[:10]]
          + [(Fn("dsame", SELF, ["u64", "same:u64"]), ("any", []), []), (Fn("dsame3", SELF, ["u64", "u64", "same:u64"]), ("any", []), []),
             (Fn("dsame_first", SELF, ["same:u64", "u64"]), ("any", []), []), (Fn("dsame_mid", SELF, ["u64", "same:u64", "u64"]), ("any", []), [])])
inversion("InvDn", "InvDnImpl", "static",
          [(Fn(f"idn{N}", SELF, ["u64"] * N + ["destr:pair", f"name=arg{N}:pair"]), ("any", []), []) for N in range(0, 3)],
          delegate_ident="DelegateInvDn")

_hs = [Fn("ihs_a", SELF, ["u64", "u64"]), Fn("aihs_b", SELF, ["u64", "u64"], is_async=True), Fn("ihs_c", SELF, ["u64", "u64"])]
_hs[0].impl_below = "#[gensim_attrs::heap_scratch]"
_hs[1].impl_below = "#[gensim_attrs::heap_scratch]"
_hs[2].impl_below = "#[inline]"
inversion("InvHs", "InvHsImpl", "static", [(_hs[0], ("impl", ["F0"]), ["f0"]), (_hs[1], ("impl", ["Af0"]), ["af0"]), (_hs[2], ("any", []), [])], delegate_ident="DelegateInvHs")
inversion("InvInto", "InvIntoImpl", "static", [(Fn("iinto_never", SELF, ["u64", "intonever"]), ("impl", ["F0"]), ["f0"]), (Fn("iinto_conv", SELF, ["intosole", "u64"]), ("any", []), [])],
          delegate_ident="DelegateInvInto")
def _renamed(name, decl_names, block_names, **kw):
    d = Fn(name, SELF, [f"name={n}:u64" for n in decl_names], **kw)
    d.impl_params = [P(f"name={n}:u64") for n in block_names]
    return d


# impl blocks that use the trait's parameter NAMES in another order (positions are what counts)
inversion("InvRen", "InvRenImpl", "static", [
    (_renamed("iren1", ("from", "to"), ("to", "from")), ("any", []), []),
    (_renamed("iren2", ("from", "to", "amount"), ("amount", "from", "to")), ("impl", ["F0"]), ["f0"]),
    (_renamed("airen", ("from", "to"), ("to", "from"), is_async=True), ("impl", ["Af0"]), ["af0"]),
    (_renamed("iren_other", ("a", "b"), ("x", "y")), ("any", []), []),
], delegate_ident="DelegateInvRen")
inversion("DynInvRen", "DynInvRenImpl", "dyn", [
    (_renamed("dren1", ("from", "to"), ("to", "from")), ("any", []), []),
    (_renamed("dren2", ("lhs", "rhs", "k"), ("rhs", "k", "lhs")), ("any", []), []),
])
# dynamic selection spelled `delegate_by = Borrow` (older spelling), with a competing target
# handed out through AsRef; and `ref` with a competing target handed out through Borrow
inversion("BorrowInv", "BorrowInvImpl", "dyn", [
    (Fn("bwi1", SELF, ["u64", "u64"]), ("impl", ["F0"]), ["f0"]),
    (Fn("bwi_unit", SELF, ["u64"], ret="unit"), ("any", []), []),
], core="borrow", cross=True)
inversion("ABorrowInv", "ABorrowInvImpl", "dyn", [
    (Fn("abwi1", SELF, ["u64", "u64"], is_async=True), ("impl", ["Af0"]), ["af0"]),
    (Fn("abwi_sync", SELF, ["u64", "u64"]), ("any", []), []),
], async_trait=True, core="borrow", cross=True)
inversion("RefXInv", "RefXInvImpl", "dyn", [
    (Fn("rxi1", SELF, ["u64", "u64"]), ("any", []), []),
    (Fn("arxi1", SELF, ["u64", "u64"], is_async=True), ("impl", ["Af0"]), ["af0"]),
], async_trait=True, cross=True)
inversion("InvArgn", "InvArgnImpl", "static", [
    (Fn("iargn1", SELF, ["u64", "name=arg1:u64"]), ("any", []), []),
    (Fn("iargn2", SELF, ["name=arg2:u64", "u64"]), ("impl", ["F0"]), ["f0"]),
    (Fn("iargn3", SELF, ["wild:u64", "name=arg1:u64"]), ("any", []), []),
    (Fn("iargn4", SELF, ["name=_arg2:u64", "name=arg3:u64", "name=arg1:u64"]), ("any", []), []),
    (Fn("aiargn", SELF, ["u64", "name=arg1:u64"], is_async=True), ("impl", ["Af0"]), ["af0"]),
], delegate_ident="DelegateInvArgn")
inversion("DynInvArgn", "DynInvArgnImpl", "dyn", [
    (Fn("dargn1", SELF, ["u64", "name=arg1:u64"]), ("any", []), []),
    (Fn("dargn2", SELF, ["name=arg2:u64", "name=arg0:u64"]), ("any", []), []),
])
inversion("InvUnd", "InvUndImpl", "static", [(Fn("iund1", SELF, ["name=limit:u64", "name=_limit:u64"]), ("any", []), []), (Fn("iund2", SELF, ["name=_x:u64", "name=x:u64"]), ("impl", ["F0"]), ["f0"])],
          delegate_ident="DelegateInvUnd")
inversion("InvPre", "InvPreImpl", "static", [(Fn(n, SELF, ["u64", "u64"]), ("any", []), []) for n in ("iget", "iget_all", "iget_", "ige")], delegate_ident="DelegateInvPre")
inversion("InvPerm", "InvPermImpl", "static", [(Fn(f"iperm{_i}", SELF, [f"name={n}:u64" for n in _pm]), ("any", []), []) for _i, _pm in enumerate(_PERMS)],
          delegate_ident="DelegateInvPerm")
inversion("DynInvPerm", "DynInvPermImpl", "dyn", [(Fn(f"dperm{_i}", SELF, [f"name={n}:u64" for n in _pm]), ("any", []), []) for _i, _pm in enumerate(_PERMS)])
inversion("Inv16", "Inv16Impl", "static", [(Fn(f"i16_{i}", SELF, ["u64", "u64"]), ("any", []), []) for i in range(16)]
          + [(Fn("iar12", SELF, ["u64"] * 12), ("any", []), [])], delegate_ident="DelegateInv16")

for _t in range(10):
    _k = _rng.choice([1, 2, 3, 4, 6])
    _ms = []
    for _j in range(_k):
        _asy = _rng.random() < 0.4
        _ms.append((Fn(f"ri{_t}_{_j}", SELF, _rand_params(_rng.choice([0, 1, 2, 3, 4]), _asy, f"ri{_t}_{_j}"), ret=_rng.choice(_TRAIT_RETS), is_async=_asy),
                    ("impl", ["Af0" if _asy else "F0"]), (["af0"] if _asy else ["f0"]) if _rng.random() < 0.5 else []))
    inversion(f"Rinv{_t}", f"Rinv{_t}Impl", "static", _ms, delegate_ident=f"DelegateRinv{_t}", fillers=tuple(_rng.sample(range(_k), _rng.choice([0, 1]))))
for _t in range(5):
    _k = _rng.choice([1, 2, 3, 4])
    _ms = [(Fn(f"rd{_t}_{_j}", SELF, [p for p in _rand_params(_rng.choice([0, 1, 2, 3]), False, f"rd{_t}_{_j}") if _dyn_ok(p)],
               ret=_rng.choice(["u64", "u64", "unit", "opt", "tuple2"])), ("impl", ["F0"]), []) for _j in range(_k)]
    inversion(f"Rdyn{_t}", f"Rdyn{_t}Impl", "dyn", _ms)
# --------------------------------------------------------------------------
# un-mock section (C11): exported mock APIs; in the default build these are
# ordinary entraited functions exercised through Impl<T> (C01)
# --------------------------------------------------------------------------
UNMOCK = []


def usingle(fn, mock):
    fn.opts = (fn.opts + ", " if fn.opts else "") + f"mock_api = {mock}, export"
    single(fn)
    fn.section = "unmock"
    fn.props = ["C01", "C11"]
    UNMOCK.append(fn)
    unmock_traits.append((fn.trait, fn.hetero))


usingle(Fn("u0", ("any", []), []), "U0Mock")
usingle(Fn("u1", ("impl", ["U0"]), ["u64"], calls=["u0"]), "U1Mock")
usingle(Fn("u2", ("impl", ["U1"]), ["u64", "u64"], calls=["u1"]), "U2Mock")
usingle(Fn("u3", ("gen", ["U2", "U0"]), ["u64", "u64", "u64"], calls=["u2", "u0"]), "U3Mock")
usingle(Fn("u_ref", ("impl", ["U0"]), ["ref", "ref"], calls=["u0"]), "URefMock")
usingle(Fn("au0", ("any", []), [], is_async=True), "Au0Mock")
usingle(Fn("au2", ("impl", ["Au0", "U1"]), ["u64", "u64"], is_async=True, calls=["au0", "u1"]), "Au2Mock")
usingle(Fn("und2", ("nodeps", []), ["u64", "u64"], opts="no_deps"), "Und2Mock")
usingle(Fn("und3", ("nodeps", []), ["u64", "u64", "u64"], opts="no_deps"), "Und3Mock")
usingle(Fn("und_destr", ("nodeps", []), ["destr:pair", "u64"], opts="no_deps"), "UndDestrMock")
usingle(Fn("aund2", ("nodeps", []), ["u64", "u64"], opts="no_deps", is_async=True), "Aund2Mock")
usingle(Fn("ub_static", ("impl", ["U0", "Send", "Sync", "'static"]), ["u64", "u64"], calls=["u0"]), "UbStaticMock")
usingle(Fn("ub_gen", ("gen", ["U1", "'static"]), ["u64", "u64"], calls=["u1"]), "UbGenMock")
usingle(Fn("ub_where", ("where", ["U0", "Sync", "'static"]), ["u64", "u64"], calls=["u0"]), "UbWhereMock")
usingle(Fn("aub_static", ("impl", ["Au0", "Send", "Sync", "'static"]), ["u64", "u64"], is_async=True, calls=["au0"]), "AubStaticMock")
usingle(Fn("ub_any", ("impl", ["::core::any::Any", "U0"]), ["u64", "u64"], calls=["u0"]), "UbAnyMock")
usingle(Fn("au_unit", ("impl", ["Au0"]), ["u64", "u64"], ret="unit", is_async=True, calls=["au0"]), "AuUnitMock")
usingle(Fn("u_unit", ("impl", ["U0"]), ["u64", "u64"], ret="unit", calls=["u0"]), "UUnitMock")
usingle(Fn("und4", ("nodeps", []), ["u64", "u64", "u64", "u64"], opts="no_deps"), "Und4Mock")
usingle(Fn("aund_unit", ("nodeps", []), ["u64", "u64"], opts="no_deps", ret="unit", is_async=True), "AundUnitMock")

for r in ["unit", "boolr", "u32r", "result", "opt"]:
    usingle(Fn(f"uk_{r}", ("impl", ["U0"]), ["u64", "u64"], ret=r, calls=["u0"]), f"Uk{r.capitalize()}Mock")
    usingle(Fn(f"undk_{r}", ("nodeps", []), ["u64", "u64"], opts="no_deps", ret=r), f"Undk{r.capitalize()}Mock")
for n in range(0, 7):
    usingle(Fn(f"undar{n}", ("nodeps", []), ["u64"] * n, opts="no_deps"), f"Undar{n}Mock")
    usingle(Fn(f"uar{n}", ("impl", ["U0"]), ["u64"] * n), f"Uar{n}Mock")

usingle(Fn("und_destr2", ("nodeps", []), ["destr:pair", "pair"], opts="no_deps"), "UndDestr2Mock")
usingle(Fn("und_destr3", ("nodeps", []), ["pair", "destr:pair", "pair"], opts="no_deps"), "UndDestr3Mock")
usingle(Fn("und_wild2", ("nodeps", []), ["wild:u64", "u64", "wild:u64", "u64"], opts="no_deps"), "UndWild2Mock")
usingle(Fn("und_same", ("nodeps", []), ["u64", "same:u64"], opts="no_deps"), "UndSameMock")
usingle(Fn("u_same", ("impl", ["U0"]), ["u64", "same:u64"], calls=["u0"]), "USameMock")
usingle(Fn("u_lt", ("impl", ["U0"]), ["refa", "u64"], ret="refarg", deps_lt=True, calls=["u0"]), "ULtMock")
usingle(Fn("u_lt_gen", ("gen", ["U0"]), ["u64", "refa"], ret="refarg", deps_lt=True), "ULtGenMock")
usingle(Fn("au_lt", ("impl", ["Au0"]), ["refa", "u64"], ret="refarg", deps_lt=True, is_async=True, calls=["au0"]), "AuLtMock")
usingle(Fn("u_byval", ("byval_any", []), ["u64", "u64"]), "UByvalMock")
usingle(Fn("au_byval", ("byval_any", []), ["u64", "u64"], is_async=True), "AuByvalMock")
usingle(Fn("und_mutw", ("nodeps", []), ["mutw", "u64"], opts="no_deps"), "UndMutwMock")
usingle(Fn("und_mutw2", ("nodeps", []), ["u64", "mutw", "mutw"], opts="no_deps"), "UndMutw2Mock")
usingle(Fn("aund_mutw", ("nodeps", []), ["mutw", "u64"], opts="no_deps", is_async=True), "AundMutwMock")
usingle(Fn("u_mutw", ("impl", ["U0"]), ["mutw", "u64"], calls=["u0"]), "UMutwMock")
usingle(Fn("und_und", ("nodeps", []), ["name=limit:u64", "name=_limit:u64"], opts="no_deps"), "UndUndMock")
usingle(Fn("und_same_first", ("nodeps", []), ["same:u64", "u64"], opts="no_deps"), "UndSameFirstMock")
usingle(Fn("u_same_first", ("impl", ["U0"]), ["same:u64", "u64", "u64"], calls=["u0"]), "USameFirstMock")
for _i, _pm in enumerate(_PERMS[:3]):
    usingle(Fn(f"undperm{_i}", ("nodeps", []), [f"name={n}:u64" for n in _pm], opts="no_deps"), f"Undperm{_i}Mock")
usingle(Fn("und_argn", ("nodeps", []), ["destr:pair", "name=arg0:pair"], opts="no_deps"), "UndArgnMock")
for nme in SUSPICIOUS[:8]:
    usingle(Fn(f"un_{nme}", ("nodeps", []), ["u64", f"name={nme}:u64"], opts="no_deps"), f"Un{nme.capitalize()}Mock")
um_fns = [
    Fn("uma", ("impl", ["U0"]), ["u64", "u64"], calls=["u0"]),
    Fn("umb", ("impl", ["U0"]), ["u64", "u64"], calls=["u0"]),
    Fn("umc", ("impl", ["U1"]), ["u64", "u64"], calls=["u1"]),
]
module("um", "Um", um_fns, opts="mock_api = UmMock, export", props=("C01", "C11"))
for f in um_fns:
    f.section = "unmock"
    UNMOCK.append(f)
unmock_traits.append(("Um", False))
umb_fns = [
    Fn("umba", ("impl", ["U0", "'static"]), ["u64", "u64"], calls=["u0"]),
    Fn("umbb", ("gen", ["U0", "Send", "Sync"]), ["u64", "u64"], calls=["u0"]),
]
module("umb", "Umb", umb_fns, opts="mock_api = UmbMock, export", props=("C01", "C11"))
for f in umb_fns:
    f.section = "unmock"
    UNMOCK.append(f)
unmock_traits.append(("Umb", False))
umf_fns = [Fn(f"umf_{i}", ("impl", ["U0"]), ["u64", "u64"], calls=["u0"]) for i in range(4)]
module("umf", "Umf", umf_fns, opts="mock_api = UmfMock, export", props=("C01", "C11"), fillers=(0, 1, 2))
for f in umf_fns:
    f.section = "unmock"
    UNMOCK.append(f)
unmock_traits.append(("Umf", False))
umnf_fns = [Fn(f"umnf_{i}", ("nodeps", []), ["u64", "u64"]) for i in range(4)]
module("umnf", "Umnf", umnf_fns, opts="no_deps, mock_api = UmnfMock, export", props=("C01", "C11"), fillers=(0, 2))
for f in umnf_fns:
    f.section = "unmock"
    UNMOCK.append(f)
unmock_traits.append(("Umnf", False))
umn_fns = [
    Fn("umna", ("nodeps", []), ["u64", "u64"]),
    Fn("umnb", ("nodeps", []), ["u64", "u64"]),
]
module("umn", "Umn", umn_fns, opts="no_deps, mock_api = UmnMock, export", props=("C01", "C11"))
for f in umn_fns:
    f.section = "unmock"
    UNMOCK.append(f)
unmock_traits.append(("Umn", False))


# functions with a CONCRETE dependency and entraited TRAITS are not un-mockable: on a partial
# mock with no matching clause the call must be refused (unimock panics), never run a function


def uneg(fn, mock):
    fn.opts = (fn.opts + ", " if fn.opts else "") + f"mock_api = {mock}, export"
    single(fn)
    fn.section = "unmock_neg"
    fn.props = ["C01", "C11"]
    UNMOCK_NEG.append(fn)


uneg(Fn("ucn2", ("concrete", ["ConcDep"]), ["u64", "u64"]), "Ucn2Mock")
uneg(Fn("aucn2", ("concrete", ["ConcDep"]), ["u64", "u64"], is_async=True), "Aucn2Mock")
uneg(Fn("ucn_unitdep", ("concrete", ["()"]), ["u64", "u64"]), "UcnUnitdepMock")
uneg(Fn("aucn_unitdep", ("concrete", ["()"]), ["u64", "u64"], is_async=True), "AucnUnitdepMock")
uneg(Fn("ucn_unitdep0", ("concrete", ["()"]), []), "UcnUnitdep0Mock")
uneg(Fn("ucn_tup", ("concrete", ["(ConcDep, u64)"]), ["u64", "u64"]), "UcnTupMock")
uneg(Fn("ucn_u64dep", ("concrete", ["u64"]), ["u64"]), "UcnU64depMock")
for _n, _asy in (("ucn_dyn", False), ("aucn_dyn", True)):
    _f = Fn(_n, ("concrete", ["(dyn U0 + Sync)" if _asy else "dyn U0"]), ["u64", "u64"], is_async=_asy)
    uneg(_f, "".join(w.capitalize() for w in _n.split("_")) + "Mock")
    _dy = "&(dyn U0 + Sync)" if _asy else "&dyn U0"
    _f.trait_call = f"(app as {_dy}).{_n}({{args}})"
    _f.direct_call = f"{_n}(app as {_dy}, {{args}})"
    _f.recv_expr = "sim::addr(app)"
ALL_FNS["ucn_unitdep"].conc_handle = ALL_FNS["aucn_unitdep"].conc_handle = ALL_FNS["ucn_unitdep0"].conc_handle = "conc_unit_impl"
ALL_FNS["ucn_tup"].conc_handle = "conc_tup_impl"
ALL_FNS["ucn_u64dep"].conc_handle = "conc_u64_impl"


def umodule(name, trait, fns, nodeps=False, fillers=()):
    module(name, trait, fns, opts=("no_deps, " if nodeps else "") + f"mock_api = {trait}Mock, export", props=("C01", "C11"), fillers=fillers)
    for f in fns:
        f.section = "unmock"
        UNMOCK.append(f)
    unmock_traits.append((trait, False))


# declaration order differs from name order (the un-mock list is matched to methods by position)
umodule("umz", "Umz", [Fn(f"umz_{n}", ("impl", ["U0"]), ["u64", "u64"], calls=["u0"]) for n in "dbca"])
umodule("umzn", "Umzn", [Fn(f"umzn_{n}", ("nodeps", []), ["u64", "u64"]) for n in "cab"], nodeps=True)
umodule("aumz", "Aumz", [Fn(f"aumz_{n}", ("impl", ["Au0"]), ["u64", "u64"], is_async=True, calls=["au0"]) for n in "ba"])
umodule("umzv", "Umzv", [Fn(f"umzv_{n}", ("impl", ["U0"]), ["u64", "u64"], vis=v) for n, v in zip("cadb", ["pub(crate)", "pub", "pub(in crate)", "pub"])])
umodule("umlt", "Umlt", [Fn("umlt_a", ("impl", ["U0"]), ["refa", "u64"], ret="refarg", deps_lt=True), Fn("umlt_b", ("impl", ["U0"]), ["refa", "u64"], ret="refarg", deps_lt=True)])
umodule("umpre", "Umpre", [Fn("up", ("impl", ["U0"]), ["u64", "u64"], calls=["u0"]), Fn("up_all", ("impl", ["U0"]), ["u64", "u64"]), Fn("up_all_x", ("impl", ["U0"]), ["u64", "u64"]),
                            Fn("u", ("impl", ["U0"]), ["u64", "u64"])])
umodule("umpren", "Umpren", [Fn("upn", ("nodeps", []), ["u64", "u64"]), Fn("upn_all", ("nodeps", []), ["u64", "u64"]), Fn("upn_", ("nodeps", []), ["u64", "u64"])], nodeps=True)
umodule("umzf", "Umzf", [Fn(f"umzf_{n}", ("nodeps", []), ["u64", "u64"]) for n in "zxy"], nodeps=True, fillers=(0, 1))


# --------------------------------------------------------------------------
# entrait invocations that are NOT at module level: function-local items, with
# same-named decoy functions at module level (name resolution of generated
# paths like `self::f` differs between the two scopes)
# --------------------------------------------------------------------------
def local_scope():
    cid = new_container()
    cfg = ccfg(cid)
    text = cmark(cid)
    text += f"{cfg}pub enum LocalWho<'a> {{\n    A(&'a Impl<AppA>),\n    B(&'a Impl<AppB>),\n    #[cfg(feature = \"unimock\")]\n    Mock(&'a ::unimock::Unimock),\n}}\n"
    specs = [
        Fn("loc_nd", ("nodeps", []), ["u64", "u64"], opts="no_deps, mock_api = LocNdMock, export"),
        Fn("loc_gen", ("any", []), ["u64", "u64"], opts="mock_api = LocGenMock, export"),
        Fn("aloc_nd", ("nodeps", []), ["u64", "u64"], opts="no_deps, mock_api = AlocNdMock, export", is_async=True),
        Fn("loc_plain", ("any", []), ["u64", "u64"]),
        Fn("loc_same", ("any", []), ["u64", "same:u64"]),
        Fn("loc_same_m", ("any", []), ["u64", "same:u64"], opts="mock_api = LocSameMMock, export"),
        Fn("loc_nd_same", ("nodeps", []), ["u64", "same:u64"], opts="no_deps, mock_api = LocNdSameMock, export"),
    ]
    for fn in specs:
        register(fn)
        fn.cid = cid
        fn.section = "unmock" if "mock_api" in fn.opts else "fn"
        fn.props = ["C01", "C11"] if "mock_api" in fn.opts else ["C01"]
        if "mock_api" in fn.opts:
            UNMOCK.append(fn)
        nodeps = fn.deps[0] == "nodeps"
        asy = "async " if fn.is_async else ""
        aw = ".await" if fn.is_async else ""
        # module-level decoy with the same name and a compatible signature
        dparams = ("" if nodeps else "_deps: &D, ") + "_a: u64, _b: u64"
        dg = "" if nodeps else "<D>"
        text += (f"{cfg}#[allow(dead_code)]\n{asy}fn {fn.name}{dg}({dparams}) -> u64 {{\n    let __f = sim::enter(60002, 0, &[]);\n    sim::exit(__f, &[])\n}}\n")
        inner = fn_text(Fn.__new__(Fn), indent="    ") if False else None
        fn.vis = ""
        body = fn_text(fn, indent="    ")
        attr = f"    #[entrait({fn.trait}, {fn.opts})]" if fn.opts else f"    #[entrait({fn.trait})]"
        call_direct = f"{fn.name}(a, b){aw}" if nodeps else None
        text += f"{cfg}pub {asy}fn {fn.name}_call(who: LocalWho<'_>, direct: bool, a: u64, b: u64) -> u64 {{\n{attr}\n{body}"
        text += "    match who {\n"
        for arm_ in ("A", "B"):
            d = f"{fn.name}(a, b){aw}" if nodeps else f"{fn.name}(app, a, b){aw}"
            text += f"        LocalWho::{arm_}(app) => {{\n            if direct {{\n                {d}\n            }} else {{\n                app.{fn.name}(a, b){aw}\n            }}\n        }}\n"
        if "mock_api" in fn.opts:
            text += f"        #[cfg(feature = \"unimock\")]\n        LocalWho::Mock(app) => app.{fn.name}(a, b){aw},\n"
        else:
            text += f"        #[cfg(feature = \"unimock\")]\n        LocalWho::Mock(_) => unreachable!(),\n"
        text += "    }\n}\n"
        aw2 = ""
        fn.trait_call = f"{fn.name}_call(LocalWho::{{AB}}(app), false, {{args}})"
        fn.direct_call = f"{fn.name}_call(LocalWho::{{AB}}(app), true, {{args}})"
        fn.recv_expr = "0" if nodeps else "sim::addr(app)"
        fn.lookups = 0
    corpus.append(text + cmark(0))


local_scope()


# --------------------------------------------------------------------------
# entrait invocations produced by macro_rules!, where two parameters are
# spelled the same but carry different hygiene (one named by the macro body,
# one by its caller) — valid Rust, and a trap for generated code that re-spans
# identifiers
# --------------------------------------------------------------------------
def macro_generated():
    cid = new_container()
    cfg = ccfg(cid)
    text = cmark(cid)

    def reg(name, is_async, section, props, pair=False, unmock=False):
        fn = Fn(name, ("impl", ["F0"]), ["u64", "u64"], is_async=is_async)
        if pair:
            FN_COUNTER[0] += 2
            fn.fn_id = FN_COUNTER[0] - 1
            fn.fn_ids = (fn.fn_id, fn.fn_id + 1)
            fn.method_id = METHOD_COUNTER[0]
            METHOD_COUNTER[0] += 1
            METHODS.append(fn)
            assert name not in ALL_FNS
            ALL_FNS[name] = fn
        else:
            register(fn)
        fn.cid = cid
        fn.section = section
        fn.props = list(props)
        fn.lookups = 0
        if unmock:
            UNMOCK.append(fn)
        return fn

    body = ("            let __f = sim::enter($id, $recv, &[$p, dup]);\n            sim::user_alloc(&__f);\n            $pause\n            sim::exit(__f, &[])\n")
    # single fns / module fns: fn name, trait name and deps parameter are written in the macro
    # body, only one parameter name comes from the macro's caller (a caller-provided fn name does
    # not compile even on the unchanged tree: the generated `self` tokens disagree in hygiene)
    f1 = reg("mac_fn", False, "fn", ("C01", "C14"))
    f2 = reg("mac_afn", True, "fn", ("C01", "C14"))
    f3 = reg("mac_nd", False, "unmock", ("C01", "C11"), unmock=True)
    f3.deps = ("nodeps", [])
    f4 = reg("mac_mfn", False, "mod", ("C01",))
    f4.container = "mac_mod"
    text += (f"{cfg}macro_rules! mk_mac_fns {{\n    ($p:ident) => {{\n"
             f"        #[entrait(pub MacFn)]\n        pub fn mac_fn(deps: &impl F0, $p: u64, dup: u64) -> u64 {{\n"
             f"            let __f = sim::enter({f1.fn_id}, sim::addr(deps), &[$p, dup]);\n            sim::user_alloc(&__f);\n            sim::sync_point(&__f);\n            sim::exit(__f, &[])\n        }}\n"
             f"        #[entrait(pub MacAfn)]\n        pub async fn mac_afn(deps: &impl Af0, $p: u64, dup: u64) -> u64 {{\n"
             f"            let __f = sim::enter({f2.fn_id}, sim::addr(deps), &[$p, dup]);\n            sim::user_alloc(&__f);\n            sim::pause(&__f).await;\n            sim::exit(__f, &[])\n        }}\n"
             f"        #[entrait(pub MacNd, no_deps, mock_api = MacNdMock, export)]\n        pub fn mac_nd($p: u64, dup: u64) -> u64 {{\n"
             f"            let __f = sim::enter({f3.fn_id}, 0, &[$p, dup]);\n            sim::user_alloc(&__f);\n            sim::sync_point(&__f);\n            sim::exit(__f, &[])\n        }}\n"
             f"        #[entrait(pub MacMod)]\n        pub mod mac_mod {{\n            use super::*;\n            pub fn mac_mfn(deps: &impl F0, $p: u64, dup: u64) -> u64 {{\n"
             f"                let __f = sim::enter({f4.fn_id}, sim::addr(deps), &[$p, dup]);\n                sim::user_alloc(&__f);\n                sim::sync_point(&__f);\n                sim::exit(__f, &[])\n            }}\n        }}\n"
             f"    }};\n}}\n{cfg}mk_mac_fns!(dup);\n")
    unmock_traits.append(("MacNd", False))
    # `$e:expr` fragments next to tighter-binding operators inside the body of a macro-stamped fn:
    # the function AS WRITTEN keeps the fragment together (`p0 * (1 + 2)`), so it records p0 itself
    e1 = reg("mac_expr", False, "fn", ("C01", "C14"))
    e2 = reg("mac_aexpr", True, "fn", ("C01", "C14"))
    e3 = reg("mac_mexpr", False, "mod", ("C01",))
    e3.container = "mac_emod"
    text += (f"{cfg}macro_rules! mk_mac_exprs {{\n    ($e:expr, $neg:expr) => {{\n"
             f"        #[entrait(pub MacExpr)]\n        pub fn mac_expr(deps: &impl F0, p0: u64, p1: u64) -> u64 {{\n"
             f"            let __f = sim::enter({e1.fn_id}, sim::addr(deps), &[(p0 * $e) / 3, p1]);\n            sim::user_alloc(&__f);\n            sim::sync_point(&__f);\n            sim::exit(__f, &[])\n        }}\n"
             f"        #[entrait(pub MacAexpr)]\n        pub async fn mac_aexpr(deps: &impl Af0, p0: u64, p1: u64) -> u64 {{\n"
             f"            let __f = sim::enter({e2.fn_id}, sim::addr(deps), &[p0, (-$neg) as u64 + p1 - 3]);\n            sim::user_alloc(&__f);\n            sim::pause(&__f).await;\n            sim::exit(__f, &[])\n        }}\n"
             f"        #[entrait(pub MacEmod)]\n        pub mod mac_emod {{\n            use super::*;\n            pub fn mac_mexpr(deps: &impl F0, p0: u64, p1: u64) -> u64 {{\n"
             f"                let __f = sim::enter({e3.fn_id}, sim::addr(deps), &[p0, (p1 * $e) / 3]);\n                sim::user_alloc(&__f);\n                sim::sync_point(&__f);\n                sim::exit(__f, &[])\n            }}\n        }}\n"
             f"    }};\n}}\n{cfg}mk_mac_exprs!(1 + 2, -1i64 - 2);\n")
    # entraited traits: Self and ref delegation
    t1 = reg("mac_p", False, "trait", ("C06", "C14"), pair=True)
    t2 = reg("mac_r", False, "trait", ("C06",), pair=True)
    t2.dynamic = True
    t3 = reg("mac_ap", True, "trait", ("C06", "C14"), pair=True)
    text += (f"{cfg}macro_rules! mk_mac_trait {{\n    ($tr:ident, $m:ident, $am:ident, $p:ident, $id:expr, $aid:expr) => {{\n        #[entrait]\n        pub trait $tr {{\n"
             "            fn $m(&self, $p: u64, dup: u64) -> u64;\n            async fn $am(&self, $p: u64, dup: u64) -> u64;\n        }\n"
             "        impl<const K: u16> $tr for App<K> {\n            fn $m(&self, $p: u64, dup: u64) -> u64 {\n"
             "                let __f = sim::enter($id + K, sim::addr(self), &[$p, dup]);\n                sim::user_alloc(&__f);\n                sim::sync_point(&__f);\n                sim::exit(__f, &[])\n            }\n"
             "            async fn $am(&self, $p: u64, dup: u64) -> u64 {\n"
             "                let __f = sim::enter($aid + K, sim::addr(self), &[$p, dup]);\n                sim::user_alloc(&__f);\n                sim::pause(&__f).await;\n                sim::exit(__f, &[])\n            }\n        }\n    };\n}\n")
    text += f"{cfg}mk_mac_trait!(MacPlain, mac_p, mac_ap, dup, {t1.fn_id}, {t3.fn_id});\n"
    for t in (t1, t3):
        t.trait_call = f"app.{t.name}({{args}})"
        t.direct_call = f"MacPlain::{t.name}(app.as_ref(), {{args}})"
        t.recv_expr = "sim::addr(app.as_ref())"
    k = lookup_kind("MacRef")
    APP_FIELDS.append("prov_macref")
    text += (f"{cfg}macro_rules! mk_mac_reftrait {{\n    ($tr:ident, $m:ident, $p:ident, $id:expr) => {{\n        #[entrait(delegate_by = ref)]\n        pub trait $tr: 'static {{\n"
             "            fn $m(&self, $p: u64, dup: u64) -> u64;\n        }\n        impl $tr for Prov {\n            fn $m(&self, $p: u64, dup: u64) -> u64 {\n"
             "                let __f = sim::enter($id + self.which, sim::addr(self), &[$p, dup]);\n                sim::user_alloc(&__f);\n                sim::sync_point(&__f);\n                sim::exit(__f, &[])\n            }\n        }\n    };\n}\n")
    text += f"{cfg}mk_mac_reftrait!(MacRef, mac_r, dup, {t2.fn_id});\n"
    text += (f"{cfg}impl<const K: u16> AsRef<dyn MacRef> for App<K> {{\n    fn as_ref(&self) -> &(dyn MacRef + 'static) {{\n        sim::lookup({k});\n        &self.prov_macref\n    }}\n}}\n")
    t2.trait_call = "app.mac_r({args})"
    t2.direct_call = "MacRef::mac_r(&app.prov_macref, {args})"
    t2.recv_expr = "sim::addr(&app.prov_macref)"
    t2.lookups = 1
    t2.lookup_kind = k
    # dependency inversion, static and dynamic
    i1 = reg("mac_i", False, "inversion", ("C07", "C14"), pair=True)
    i2 = reg("mac_d", False, "inversion", ("C07",), pair=True)
    i2.dynamic = True
    text += "pub struct MacInvTargetA(pub u64);\npub struct MacInvTargetB(pub u64);\npub struct MacDynTargetA(pub u64);\npub struct MacDynTargetB(pub u64);\n"
    text += (f"{cfg}macro_rules! mk_mac_inv {{\n    ($tr:ident, $imp:ident, $del:ident, $m:ident, $p:ident) => {{\n        #[entrait($imp, delegate_by = $del)]\n        pub trait $tr {{\n"
             "            fn $m(&self, $p: u64, dup: u64) -> u64;\n        }\n    };\n}\n")
    text += (f"{cfg}macro_rules! mk_mac_dyninv {{\n    ($tr:ident, $imp:ident, $m:ident, $p:ident) => {{\n        #[entrait($imp, delegate_by = ref)]\n        pub trait $tr {{\n"
             "            fn $m(&self, $p: u64, dup: u64) -> u64;\n        }\n    };\n}\n")
    text += f"{cfg}mk_mac_inv!(MacInv, MacInvImpl, DelegateMacInv, mac_i, dup);\n{cfg}mk_mac_dyninv!(MacDyn, MacDynImpl, mac_d, dup);\n"
    kd = lookup_kind("MacDyn")
    for which, ab in enumerate("AB"):
        text += (f"{cfg}#[entrait]\nimpl MacInvImpl for MacInvTarget{ab} {{\n    pub fn mac_i(deps: &impl F0, p0: u64, p1: u64) -> u64 {{\n"
                 f"        let __f = sim::enter({i1.fn_ids[which]}, sim::addr(deps), &[p0, p1]);\n        sim::user_alloc(&__f);\n        sim::sync_point(&__f);\n        sim::exit(__f, &[])\n    }}\n}}\n"
                 f"{cfg}impl DelegateMacInv<Self> for App<{which}> {{\n    type Target = MacInvTarget{ab};\n}}\n")
        field = f"dyn_macdyn_{ab.lower()}"
        APP_FIELDS_TYPED.append((field, f"MacDynTarget{ab}"))
        text += (f"{cfg}#[entrait(ref)]\nimpl MacDynImpl for MacDynTarget{ab} {{\n    pub fn mac_d(deps: &impl F0, p0: u64, p1: u64) -> u64 {{\n"
                 f"        let __f = sim::enter({i2.fn_ids[which]}, sim::addr(deps), &[p0, p1]);\n        sim::user_alloc(&__f);\n        sim::sync_point(&__f);\n        sim::exit(__f, &[])\n    }}\n}}\n"
                 f"{cfg}impl AsRef<dyn MacDynImpl<Self>> for App<{which}> {{\n    fn as_ref(&self) -> &(dyn MacDynImpl<Self> + 'static) {{\n        sim::lookup({kd});\n        &self.{field}\n    }}\n}}\n")
    # impl blocks whose self type arrives as a `$t:ty` fragment (an invisible group) or is written in
    # parentheses; free functions named like the blocks' fns are in scope (decoys: function id 60007)
    j1 = reg("mac_ty", False, "inversion", ("C07", "C14"), pair=True)
    j2 = reg("mac_tyd", False, "inversion", ("C07",), pair=True)
    j2.dynamic = True
    j3 = reg("mac_paren", False, "inversion", ("C07", "C14"), pair=True)
    for nm in ("mac_ty", "mac_tyd", "mac_paren", "mac_hy", "mac_hyd"):
        text += (f"{cfg}pub fn {nm}<D>(deps: &D, p0: u64, p1: u64) -> u64 {{\n    let __f = sim::enter(60007, sim::addr(deps), &[]);\n    let _ = (p0, p1);\n    sim::exit(__f, &[])\n}}\n")
    text += ("pub struct MacTyTargetA(pub u64);\npub struct MacTyTargetB(pub u64);\npub struct MacTydTargetA(pub u64);\npub struct MacTydTargetB(pub u64);\n"
             "pub struct MacParenTargetA(pub u64);\npub struct MacParenTargetB(pub u64);\n")
    text += (f"{cfg}#[entrait(MacTyImpl, delegate_by = DelegateMacTy)]\npub trait MacTy {{\n    fn mac_ty(&self, p0: u64, p1: u64) -> u64;\n}}\n"
             f"{cfg}#[entrait(MacTydImpl, delegate_by = ref)]\npub trait MacTyd {{\n    fn mac_tyd(&self, p0: u64, p1: u64) -> u64;\n}}\n"
             f"{cfg}#[entrait(MacParenImpl, delegate_by = DelegateMacParen)]\npub trait MacParen {{\n    fn mac_paren(&self, p0: u64, p1: u64) -> u64;\n}}\n")
    fnbody = ("            let __f = sim::enter($id, sim::addr(deps), &[p0, p1]);\n            sim::user_alloc(&__f);\n            sim::sync_point(&__f);\n            sim::exit(__f, &[])\n")
    text += (f"{cfg}macro_rules! mk_mac_tyblock {{\n    ($t:ty, $id:expr) => {{\n        #[entrait]\n        impl MacTyImpl for $t {{\n            pub fn mac_ty(deps: &impl F0, p0: u64, p1: u64) -> u64 {{\n    "
             + fnbody.replace("\n            ", "\n                ") + "            }\n        }\n    };\n}\n")
    text += (f"{cfg}macro_rules! mk_mac_tydblock {{\n    ($t:ty, $id:expr) => {{\n        #[entrait(ref)]\n        impl MacTydImpl for $t {{\n            pub fn mac_tyd(deps: &impl F0, p0: u64, p1: u64) -> u64 {{\n    "
             + fnbody.replace("\n            ", "\n                ") + "            }\n        }\n    };\n}\n")
    kd2 = lookup_kind("MacTyd")
    for which, ab in enumerate("AB"):
        text += f"{cfg}mk_mac_tyblock!(MacTyTarget{ab}, {j1.fn_ids[which]});\n{cfg}mk_mac_tydblock!(MacTydTarget{ab}, {j2.fn_ids[which]});\n"
        text += (f"{cfg}#[entrait]\nimpl MacParenImpl for (MacParenTarget{ab}) {{\n    pub fn mac_paren(deps: &impl F0, p0: u64, p1: u64) -> u64 {{\n"
                 f"        let __f = sim::enter({j3.fn_ids[which]}, sim::addr(deps), &[p0, p1]);\n        sim::user_alloc(&__f);\n        sim::sync_point(&__f);\n        sim::exit(__f, &[])\n    }}\n}}\n")
        text += (f"{cfg}impl DelegateMacTy<Self> for App<{which}> {{\n    type Target = MacTyTarget{ab};\n}}\n"
                 f"{cfg}impl DelegateMacParen<Self> for App<{which}> {{\n    type Target = MacParenTarget{ab};\n}}\n")
        field = f"dyn_mactyd_{ab.lower()}"
        APP_FIELDS_TYPED.append((field, f"MacTydTarget{ab}"))
        text += (f"{cfg}impl AsRef<dyn MacTydImpl<Self>> for App<{which}> {{\n    fn as_ref(&self) -> &(dyn MacTydImpl<Self> + 'static) {{\n        sim::lookup({kd2});\n        &self.{field}\n    }}\n}}\n")
    # macro-stamped impl blocks: one parameter named by the macro's caller, spelled like the one in the body
    h1 = reg("mac_hy", False, "inversion", ("C07", "C14"), pair=True)
    h2 = reg("mac_hyd", False, "inversion", ("C07",), pair=True)
    h2.dynamic = True
    text += ("pub struct MacHyTargetA(pub u64);\npub struct MacHyTargetB(pub u64);\npub struct MacHydTargetA(pub u64);\npub struct MacHydTargetB(pub u64);\n"
             f"{cfg}#[entrait(MacHyImpl, delegate_by = DelegateMacHy)]\npub trait MacHy {{\n    fn mac_hy(&self, p0: u64, p1: u64) -> u64;\n}}\n"
             f"{cfg}#[entrait(MacHydImpl, delegate_by = ref)]\npub trait MacHyd {{\n    fn mac_hyd(&self, p0: u64, p1: u64) -> u64;\n}}\n")
    hybody = ("                let __f = sim::enter($id, sim::addr(deps), &[$p, dup]);\n                sim::user_alloc(&__f);\n                sim::sync_point(&__f);\n                sim::exit(__f, &[])\n")
    text += (f"{cfg}macro_rules! mk_mac_hyblock {{\n    ($t:ty, $id:expr, $p:ident) => {{\n        #[entrait]\n        impl MacHyImpl for $t {{\n            pub fn mac_hy(deps: &impl F0, $p: u64, dup: u64) -> u64 {{\n"
             + hybody + "            }\n        }\n    };\n}\n")
    text += (f"{cfg}macro_rules! mk_mac_hydblock {{\n    ($t:ty, $id:expr, $p:ident) => {{\n        #[entrait(ref)]\n        impl MacHydImpl for $t {{\n            pub fn mac_hyd(deps: &impl F0, $p: u64, dup: u64) -> u64 {{\n"
             + hybody + "            }\n        }\n    };\n}\n")
    kd3 = lookup_kind("MacHyd")
    for which, ab in enumerate("AB"):
        text += f"{cfg}mk_mac_hyblock!(MacHyTarget{ab}, {h1.fn_ids[which]}, dup);\n{cfg}mk_mac_hydblock!(MacHydTarget{ab}, {h2.fn_ids[which]}, dup);\n"
        text += f"{cfg}impl DelegateMacHy<Self> for App<{which}> {{\n    type Target = MacHyTarget{ab};\n}}\n"
        field = f"dyn_machyd_{ab.lower()}"
        APP_FIELDS_TYPED.append((field, f"MacHydTarget{ab}"))
        text += (f"{cfg}impl AsRef<dyn MacHydImpl<Self>> for App<{which}> {{\n    fn as_ref(&self) -> &(dyn MacHydImpl<Self> + 'static) {{\n        sim::lookup({kd3});\n        &self.{field}\n    }}\n}}\n")
    for h, tgt in ((h1, "MacHyTarget"), (h2, "MacHydTarget")):
        h.trait_call = f"app.{h.name}({{args}})"
        h.direct_call = f"{tgt}{{AB}}::{h.name}(app, {{args}})"
        h.recv_expr = "sim::addr(app)"
    h2.lookups = 1
    h2.lookup_kind = kd3
    for j, tgt in ((j1, "MacTyTarget"), (j2, "MacTydTarget"), (j3, "MacParenTarget")):
        j.trait_call = f"app.{j.name}({{args}})"
        j.direct_call = f"{tgt}{{AB}}::{j.name}(app, {{args}})"
        j.recv_expr = "sim::addr(app)"
    j2.lookups = 1
    j2.lookup_kind = kd2
    i1.trait_call = "app.mac_i({args})"
    i1.direct_call = "MacInvTarget{AB}::mac_i(app, {args})"
    i1.recv_expr = "sim::addr(app)"
    i2.trait_call = "app.mac_d({args})"
    i2.direct_call = "MacDynTarget{AB}::mac_d(app, {args})"
    i2.recv_expr = "sim::addr(app)"
    i2.lookups = 1
    i2.lookup_kind = kd
    corpus.append(text + cmark(0))


macro_generated()


# --------------------------------------------------------------------------
# SAME-NAMED items in different modules whose parameter lists are permutations of one another
# (same names, same types): what a memo kept ACROSS expansions and keyed by (name, types) or by
# an order-insensitive fingerprint needs in one compilation
# --------------------------------------------------------------------------
def same_name_families():
    perms = [("from", "to", "amount"), ("to", "from", "amount"), ("amount", "to", "from")]
    cid = new_container()
    cfg = ccfg(cid)
    text = cmark(cid)

    def mk(name, is_async, section, props, pair, pm, dynamic=False):
        fn = Fn(name, ("impl", ["F0"]), [f"name={n}:u64" for n in pm], is_async=is_async)
        if pair:
            FN_COUNTER[0] += 2
            fn.fn_id = FN_COUNTER[0] - 1
            fn.fn_ids = (fn.fn_id, fn.fn_id + 1)
            fn.method_id = METHOD_COUNTER[0]
            METHOD_COUNTER[0] += 1
            METHODS.append(fn)
            assert name not in ALL_FNS
            ALL_FNS[name] = fn
        else:
            register(fn)
        fn.cid = cid
        fn.section = section
        fn.props = list(props)
        fn.lookups = 0
        fn.dynamic = dynamic
        return fn

    def body(idexpr, recv, pm, asy, ind="        "):
        pause = "sim::pause(&__f).await;" if asy else "sim::sync_point(&__f);"
        return (f"{ind}let __f = sim::enter({idexpr}, {recv}, &[{', '.join(pm)}]);\n{ind}sim::user_alloc(&__f);\n{ind}{pause}\n{ind}sim::exit(__f, &[])\n")

    for i, pm in enumerate(perms, 1):
        sig = ", ".join(f"{n}: u64" for n in pm)
        # 1. fn with generic deps, sync and async
        f = mk(f"snf_v{i}", False, "fn", ("C01", "C14"), False, pm)
        fa = mk(f"asnf_v{i}", True, "fn", ("C01", "C14"), False, pm)
        text += (f"{cfg}pub mod sn_fn_v{i} {{\n    use super::*;\n    #[entrait(pub Xfer)]\n    pub fn xfer(deps: &impl F0, {sig}) -> u64 {{\n" + body(f.fn_id, "sim::addr(deps)", pm, False)
                 + f"    }}\n    #[entrait(pub Axfer)]\n    pub async fn axfer(deps: &impl Af0, {sig}) -> u64 {{\n" + body(fa.fn_id, "sim::addr(deps)", pm, True) + "    }\n}\n")
        f.trait_call, f.direct_call, f.recv_expr = f"sn_fn_v{i}::Xfer::xfer(app, {{args}})", f"sn_fn_v{i}::xfer(app, {{args}})", "sim::addr(app)"
        fa.trait_call, fa.direct_call, fa.recv_expr = f"sn_fn_v{i}::Axfer::axfer(app, {{args}})", f"sn_fn_v{i}::axfer(app, {{args}})", "sim::addr(app)"
        # 2. no_deps fn with a mock API (un-mock path)
        g = mk(f"snnd_v{i}", False, "unmock", ("C01", "C11"), False, pm)
        g.deps = ("nodeps", [])
        UNMOCK.append(g)
        text += (f"{cfg}pub mod sn_nd_v{i} {{\n    use super::*;\n    #[entrait(pub XferNd, no_deps, mock_api = XferNdMock, export)]\n    pub fn xfer_nd({sig}) -> u64 {{\n" + body(g.fn_id, "0", pm, False) + "    }\n}\n")
        g.trait_call, g.direct_call, g.recv_expr = f"sn_nd_v{i}::XferNd::xfer_nd(app, {{args}})", f"sn_nd_v{i}::xfer_nd({{args}})", "0"
        # 3. fn inside an entraited module (generic deps, mock API)
        m = mk(f"snm_v{i}", False, "unmock", ("C01", "C11"), False, pm)
        m.deps = ("impl", ["U0"])
        UNMOCK.append(m)
        text += (f"{cfg}pub mod sn_mod_v{i} {{\n    use super::*;\n    #[entrait(pub XferM, mock_api = XferMMock, export)]\n    pub mod xm {{\n        use super::*;\n        pub fn xfer_m(deps: &impl U0, {sig}) -> u64 {{\n"
                 + body(m.fn_id, "sim::addr(deps)", pm, False, ind="            ") + "        }\n    }\n}\n")
        m.trait_call, m.direct_call, m.recv_expr = f"sn_mod_v{i}::XferM::xfer_m(app, {{args}})", f"sn_mod_v{i}::xm::xfer_m(app, {{args}})", "sim::addr(app)"
        # 4. entraited trait, Self delegation (sync + async)
        t = mk(f"snt_v{i}", False, "trait", ("C06", "C14"), True, pm)
        ta = mk(f"asnt_v{i}", True, "trait", ("C06", "C14"), True, pm)
        text += (f"{cfg}pub mod sn_tr_v{i} {{\n    use super::*;\n    #[entrait]\n    pub trait XferT {{\n        fn xfer_t(&self, {sig}) -> u64;\n        async fn axfer_t(&self, {sig}) -> u64;\n    }}\n"
                 f"    impl<const K: u16> XferT for App<K> {{\n        fn xfer_t(&self, {sig}) -> u64 {{\n" + body(f"{t.fn_id} + K", "sim::addr(self)", pm, False, ind="            ")
                 + f"        }}\n        async fn axfer_t(&self, {sig}) -> u64 {{\n" + body(f"{ta.fn_id} + K", "sim::addr(self)", pm, True, ind="            ") + "        }\n    }\n}\n")
        for x, nm in ((t, "xfer_t"), (ta, "axfer_t")):
            x.trait_call, x.direct_call, x.recv_expr = f"sn_tr_v{i}::XferT::{nm}(app, {{args}})", f"sn_tr_v{i}::XferT::{nm}(app.as_ref(), {{args}})", "sim::addr(app.as_ref())"
        # 5. entraited trait, delegate_by = ref
        r = mk(f"snr_v{i}", False, "trait", ("C06",), True, pm, dynamic=True)
        field = f"prov_snr_v{i}"
        APP_FIELDS.append(field)
        k = lookup_kind(f"SnR{i}")
        text += (f"{cfg}pub mod sn_trr_v{i} {{\n    use super::*;\n    #[entrait(delegate_by = ref)]\n    pub trait XferR: 'static {{\n        fn xfer_r(&self, {sig}) -> u64;\n    }}\n"
                 f"    impl XferR for Prov {{\n        fn xfer_r(&self, {sig}) -> u64 {{\n" + body(f"{r.fn_id} + self.which", "sim::addr(self)", pm, False, ind="            ") + "        }\n    }\n"
                 f"    impl<const K: u16> AsRef<dyn XferR> for App<K> {{\n        fn as_ref(&self) -> &(dyn XferR + 'static) {{\n            sim::lookup({k});\n            &self.{field}\n        }}\n    }}\n}}\n")
        r.trait_call, r.direct_call, r.recv_expr = f"sn_trr_v{i}::XferR::xfer_r(app, {{args}})", f"sn_trr_v{i}::XferR::xfer_r(&app.{field}, {{args}})", f"sim::addr(&app.{field})"
        r.lookups, r.lookup_kind = 1, k
        # 6. dependency inversion, static and dynamic
        iv = mk(f"sni_v{i}", False, "inversion", ("C07", "C14"), True, pm)
        dv = mk(f"snd_v{i}", False, "inversion", ("C07",), True, pm, dynamic=True)
        kd = lookup_kind(f"SnD{i}")
        text += (f"{cfg}pub mod sn_inv_v{i} {{\n    use super::*;\n    #[entrait(XferIImpl, delegate_by = DelegateXferI)]\n    pub trait XferI {{\n        fn xfer_i(&self, {sig}) -> u64;\n    }}\n"
                 f"    #[entrait(XferDImpl, delegate_by = ref)]\n    pub trait XferD {{\n        fn xfer_d(&self, {sig}) -> u64;\n    }}\n"
                 )
        # the targets live OUTSIDE the droppable module: the application's fields are of these types
        text = text.replace(f"{cfg}pub mod sn_inv_v{i} {{", f"pub struct SnTA{i}(pub u64);\npub struct SnTB{i}(pub u64);\n{cfg}pub mod sn_inv_v{i} {{")
        for which, ab in enumerate("AB"):
            text += (f"    #[entrait]\n    impl XferIImpl for SnT{ab}{i} {{\n        pub fn xfer_i(deps: &impl F0, {sig}) -> u64 {{\n" + body(iv.fn_ids[which], "sim::addr(deps)", pm, False, ind="            ") + "        }\n    }\n"
                     f"    #[entrait(ref)]\n    impl XferDImpl for SnT{ab}{i} {{\n        pub fn xfer_d(deps: &impl F0, {sig}) -> u64 {{\n" + body(dv.fn_ids[which], "sim::addr(deps)", pm, False, ind="            ") + "        }\n    }\n"
                     f"    impl DelegateXferI<Self> for App<{which}> {{\n        type Target = SnT{ab}{i};\n    }}\n")
            dfield = f"dyn_snd_v{i}_{ab.lower()}"
            APP_FIELDS_TYPED.append((dfield, f"SnT{ab}{i}"))
            text += (f"    impl AsRef<dyn XferDImpl<Self>> for App<{which}> {{\n        fn as_ref(&self) -> &(dyn XferDImpl<Self> + 'static) {{\n            sim::lookup({kd});\n            &self.{dfield}\n        }}\n    }}\n")
        text += "}\n"
        iv.trait_call, iv.direct_call, iv.recv_expr = f"sn_inv_v{i}::XferI::xfer_i(app, {{args}})", f"SnT{{AB}}{i}::xfer_i(app, {{args}})", "sim::addr(app)"
        dv.trait_call, dv.direct_call, dv.recv_expr = f"sn_inv_v{i}::XferD::xfer_d(app, {{args}})", f"SnT{{AB}}{i}::xfer_d(app, {{args}})", "sim::addr(app)"
        dv.lookups, dv.lookup_kind = 1, kd
    corpus.append(text + cmark(0))


same_name_families()


# --------------------------------------------------------------------------
# two generated traits with the SAME name in different modules, one depending
# on the other (layered `repo::GetUser` / `service::GetUser`)
# --------------------------------------------------------------------------
def layered_same_name():
    cid = new_container()
    cfg = ccfg(cid)
    repo = Fn("layr_get_user", ("impl", ["U0"]), ["u64", "u64"])
    svc = Fn("lays_get_user", ("impl", ["U0"]), ["u64", "u64"])
    for fn in (repo, svc):
        register(fn)
        fn.cid = cid
        fn.section = "unmock"
        fn.props = ["C01", "C11"]
        fn.lookups = 0
        UNMOCK.append(fn)
    u0 = ALL_FNS["u0"]
    text = cmark(cid)
    text += (f"{cfg}pub mod lay_repo {{\n    use super::*;\n    #[entrait(pub GetUser, mock_api = RepoGetUserMock, export)]\n"
             f"    pub fn get_user(deps: &impl U0, p0: u64, p1: u64) -> u64 {{\n        let __f = sim::enter({repo.fn_id}, sim::addr(deps), &[p0, p1]);\n        sim::user_alloc(&__f);\n        sim::sync_point(&__f);\n"
             f"        let __t0 = sim::call_start({u0.method_id}, sim::addr(deps), &[]);\n        let __c0 = deps.u0();\n        sim::call_end(__t0, __c0);\n        sim::exit(__f, &[__c0])\n    }}\n}}\n")
    text += (f"{cfg}pub mod lay_service {{\n    use super::*;\n    #[entrait(pub GetUser, mock_api = ServiceGetUserMock, export)]\n"
             f"    pub fn get_user(deps: &impl super::lay_repo::GetUser, p0: u64, p1: u64) -> u64 {{\n        let __f = sim::enter({svc.fn_id}, sim::addr(deps), &[p0, p1]);\n        sim::user_alloc(&__f);\n        sim::sync_point(&__f);\n"
             f"        let __a0 = [sim::sub(&__f, 0), sim::sub(&__f, 1)];\n        let __t0 = sim::call_start({repo.method_id}, sim::addr(deps), &__a0);\n"
             f"        let __c0 = super::lay_repo::GetUser::get_user(deps, __a0[0], __a0[1]);\n        sim::call_end(__t0, __c0);\n        sim::exit(__f, &[__c0])\n    }}\n}}\n")
    # async pair, method-call syntax: the service fn awaits a SAME-NAMED method of another trait
    arepo = Fn("alayr_get_user", ("impl", ["Af0"]), ["u64", "u64"], is_async=True)
    asvc = Fn("alays_get_user", ("impl", ["Af0"]), ["u64", "u64"], is_async=True)
    for fn in (arepo, asvc):
        register(fn)
        fn.cid = cid
        fn.section = "fn"
        fn.props = ["C01", "C14"]
        fn.lookups = 0
    asvc.calls = ["alayr_get_user"]
    text += (f"{cfg}pub mod alay_repo {{\n    use super::*;\n    #[entrait(pub AGetUser)]\n"
             f"    pub async fn aget_user(deps: &impl Af0, p0: u64, p1: u64) -> u64 {{\n        let __f = sim::enter({arepo.fn_id}, sim::addr(deps), &[p0, p1]);\n        sim::user_alloc(&__f);\n        sim::pause(&__f).await;\n"
             f"        sim::exit(__f, &[])\n    }}\n}}\n")
    text += (f"{cfg}pub mod alay_service {{\n    use super::*;\n    #[entrait(pub AGetUser)]\n"
             f"    pub async fn aget_user(deps: &impl super::alay_repo::AGetUser, p0: u64, p1: u64) -> u64 {{\n        let __f = sim::enter({asvc.fn_id}, sim::addr(deps), &[p0, p1]);\n        sim::user_alloc(&__f);\n        sim::pause(&__f).await;\n"
             f"        let __a0 = [sim::sub(&__f, 0), sim::sub(&__f, 1)];\n        let __t0 = sim::call_start({arepo.method_id}, sim::addr(deps), &__a0);\n"
             f"        let __c0 = deps.aget_user(__a0[0], __a0[1]).await;\n        sim::call_end(__t0, __c0);\n        sim::pause(&__f).await;\n        sim::exit(__f, &[__c0])\n    }}\n}}\n")
    arepo.trait_call = "alay_repo::AGetUser::aget_user(app, {args})"
    arepo.direct_call = "alay_repo::aget_user(app, {args})"
    arepo.recv_expr = "sim::addr(app)"
    asvc.trait_call = "alay_service::AGetUser::aget_user(app, {args})"
    asvc.direct_call = "alay_service::aget_user(app, {args})"
    asvc.recv_expr = "sim::addr(app)"
    repo.trait_call = "lay_repo::GetUser::get_user(app, {args})"
    repo.direct_call = "lay_repo::get_user(app, {args})"
    repo.recv_expr = "sim::addr(app)"
    svc.trait_call = "lay_service::GetUser::get_user(app, {args})"
    svc.direct_call = "lay_service::get_user(app, {args})"
    svc.recv_expr = "sim::addr(app)"
    corpus.append(text + cmark(0))


layered_same_name()

# --------------------------------------------------------------------------
# concrete-dependency second hop and Impl<ConcDep> handle
# --------------------------------------------------------------------------
conc_adopt = ""
for name in ("conc2", "conc_ret", "aconc2"):
    fn = ALL_FNS[name]
    lt = "<'a>" if lifetimes(fn) else ""
    params = ["&self"] + [p.sig(i, fn.name) for i, p in enumerate(fn.params)]
    args = ", ".join(p.binding(i, fn.name) for i, p in enumerate(fn.params))
    ret = RET_TEXT[fn.ret]
    asy = "async " if fn.is_async else ""
    aw = ".await" if fn.is_async else ""
    conc_adopt += (cmark(fn.cid) + ccfg(fn.cid) + f"/// hand-written adoption of the leaf trait by the application (second hop)\n"
                   f"impl<const K: u16> {fn.trait} for App<K> {{\n    {asy}fn {name}{lt}({', '.join(params)}){ret} {{\n"
                   f"        {name}(&self.conc_dep, {args}){aw}\n    }}\n}}\n" + cmark(0))
corpus.append(conc_adopt)

# --------------------------------------------------------------------------
# application types
# --------------------------------------------------------------------------
fields = "".join(f"    pub {f}: Prov,\n" for f in APP_FIELDS) + "".join(f"    pub {f}: {t},\n" for f, t in APP_FIELDS_TYPED)
inits = "".join(f"            {f}: Prov {{ which: K, pad: 7 }},\n" for f in APP_FIELDS) + "".join(
    f"            {f}: {t}(9),\n" for f, t in APP_FIELDS_TYPED)
apps = f"""
/// simulator-owned provider object behind `AsRef<dyn ..>` / `Borrow<dyn ..>`
pub struct Prov {{
    pub which: u16,
    pub pad: u64,
}}
pub struct ConcDep {{
    pub pad: u64,
}}
pub struct ConcWrap<T>(pub T);
/// a concrete dependency type that is `Clone` and owns heap data
#[derive(Clone)]
pub struct ConcClone {{
    pub name: String,
    pub tags: Vec<u64>,
}}
/// Application type; `K` selects the delegation targets (0 = A, 1 = B).
pub struct App<const K: u16> {{
    pub id: u64,
    pub slot: u64,
    pub conc_dep: ConcDep,
    pub conc_impl: Impl<ConcDep>,
    pub conc_gen_impl: Impl<ConcWrap<u64>>,
    pub conc_tup_impl: Impl<(ConcDep, u64)>,
    pub conc_unit_impl: Impl<()>,
    pub copy_impl: Impl<CopyApp>,
    pub conc_clone_impl: Impl<ConcClone>,
    pub conc_arc_impl: Impl<std::sync::Arc<ConcClone>>,
    pub conc_u64_impl: Impl<u64>,
{fields}}}
pub type AppA = App<0>;
pub type AppB = App<1>;
impl<const K: u16> App<K> {{
    pub fn new() -> Self {{
        App {{
            id: 1000 + K as u64,
            slot: 77_000 + K as u64,
            conc_dep: ConcDep {{ pad: 1 }},
            conc_impl: Impl::new(ConcDep {{ pad: 2 }}),
            conc_gen_impl: Impl::new(ConcWrap(5u64)),
            conc_tup_impl: Impl::new((ConcDep {{ pad: 3 }}, 4)),
            conc_unit_impl: Impl::new(()),
            copy_impl: Impl::new(CopyApp {{ base: 11 }}),
            conc_clone_impl: Impl::new(ConcClone {{ name: "conc".to_string(), tags: vec![1, 2, 3] }}),
            conc_arc_impl: Impl::new(std::sync::Arc::new(ConcClone {{ name: "arc".to_string(), tags: vec![4] }})),
            conc_u64_impl: Impl::new(6u64),
{inits}        }}
    }}
}}
/// a second instance of each application type (for `&Self` arguments)
pub fn other_a() -> &'static Impl<AppA> {{
    static O: std::sync::OnceLock<Impl<AppA>> = std::sync::OnceLock::new();
    O.get_or_init(|| sim::masked(|| Impl::new(AppA::new())))
}}
pub fn other_b() -> &'static Impl<AppB> {{
    static O: std::sync::OnceLock<Impl<AppB>> = std::sync::OnceLock::new();
    O.get_or_init(|| sim::masked(|| Impl::new(AppB::new())))
}}
/// small by-value application carrying an identity token
#[derive(Clone, Copy)]
pub struct SmallApp {{
    pub token: u64,
}}
impl Token for Impl<SmallApp> {{
    fn token(&self) -> u64 {{
        self.as_ref().token
    }}
}}
"""
corpus.append(apps)

with open(os.path.join(OUT, "corpus.rs"), "w") as f:
    f.write(prelude + "\n".join(corpus))

# --------------------------------------------------------------------------
# dispatch + model
# --------------------------------------------------------------------------


def build_args(fn):
    k = 0
    preludes, exprs, fps = [], [], []
    for p in fn.params:
        pre, e, fp, n = p.call(k)
        if p.pat == "wild":
            fp = []
        if pre:
            preludes.append(pre)
        exprs.append(e)
        fps += fp
        k += n
    return preludes, exprs, fps, k


def ret_fp(fn):
    if fn.ret in SMALL_RETS:
        return "__r as u64"
    extra = {"iter": "{ let mut __it = __r; let a = __it.next().unwrap_or(0); let b = __it.next().unwrap_or(0); let c = __it.next().unwrap_or(0); if b == a ^ 1 && c == a ^ 2 { a } else { u64::MAX } }",
             "tuple2": "{ if __r.1 == __r.0 ^ 1 { __r.0 } else { u64::MAX } }", "arr2r": "{ if __r[1] == __r[0] ^ 1 { __r[0] } else { u64::MAX } }",
             "range": "{ if __r.end == __r.start + 3 { __r.start } else { u64::MAX } }", "implfn": "__r(0)",
             "optt": "{ match __r { Some(t) => { let id = t.id; drop(t); id } None => u64::MAX } }"}
    if fn.ret in extra:
        return extra[fn.ret]
    if fn.ret == "resunit":
        return "match __r { Ok(()) => 0, Err(x) => x }"
    if fn.ret == "vecr":
        return "{ let x = __r.first().copied().unwrap_or(u64::MAX); sim::masked(|| drop(__r)); x }"
    if fn.ret == "stringr":
        return "{ let x = sim::str_fp(&__r); sim::masked(|| drop(__r)); x }"
    if fn.ret in ("boxr", "arcr"):
        return "{ let x = *__r; sim::masked(|| drop(__r)); x }"
    if fn.ret == "resvec":
        return "{ let v = __r.unwrap_or_default(); let x = v.first().copied().unwrap_or(u64::MAX); sim::masked(|| drop(v)); x }"
    if fn.ret == "boxfut":
        return "{ let mut f = __r; let x = sim::poll_ready(f.as_mut()).unwrap_or(u64::MAX); sim::masked(|| drop(f)); x }"
    if fn.ret == "implfut":
        return "sim::poll_ready(__r).unwrap_or(u64::MAX)"
    if fn.ret == "implfut_drop":
        # the returned future is dropped unpolled: the function itself must already have run
        return "{ drop(__r); 0 }"
    return {"u64": "__r", "unit": "{ let () = __r; 0 }", "explicit_unit": "{ let () = __r; 0 }", "implfp": "sim::Fp::fp(&__r)", "refarg": "*__r", "refdeps": "*__r",
            "result": "match __r { Ok(x) | Err(x) => x }", "opt": "__r.unwrap_or(0)",
            "tracked": "{ let id = __r.id; drop(__r); id }"}[fn.ret]


def plain_calls(fn):
    """(trait_call, direct_call, recv) templates for entraited fns"""
    form = fn.deps[0]
    path = f"{fn.container}::{fn.name}" if fn.container else fn.name
    if form == "nodeps":
        return (f"app.{fn.name}({{args}})", f"{path}({{args}})", "0")
    if form == "concrete":
        h = getattr(fn, "conc_handle", "conc_impl")
        return (f"app.{h}.{fn.name}({{args}})", f"{path}(app.{h}.as_ref(), {{args}})", f"sim::addr(&app.{h})")
    if form == "byval_any":
        return (f"Impl::new(SmallApp {{ token: v[7] }}).{fn.name}({{args}})",
                f"{path}(Impl::new(SmallApp {{ token: v[7] }}), {{args}})", "sim::name_fp(std::any::type_name::<Impl<SmallApp>>()) as usize")
    if form == "byval":
        return (f"Impl::new(SmallApp {{ token: v[7] }}).{fn.name}({{args}})",
                f"{path}(Impl::new(SmallApp {{ token: v[7] }}), {{args}})", "v[7] as usize")
    return (f"app.{fn.name}({{args}})", f"{path}(app, {{args}})", "sim::addr(app)")


def arm(fn, ab, is_async, mock=False):
    pre, exprs, fps, used = build_args(fn)
    args = ", ".join(exprs)
    if hasattr(fn, "trait_call"):
        tc, dc, recv = fn.trait_call, fn.direct_call, fn.recv_expr
    else:
        tc, dc, recv = plain_calls(fn)
    if getattr(fn, "small_handle", False) and not mock:
        pre = pre + ["let __small = Impl::new(SmallApp { token: v[7] });"]
        path = f"{fn.container}::{fn.name}" if fn.container else fn.name
        tc, dc, recv = f"__small.{fn.name}({{args}})", f"{path}(&__small, {{args}})", "sim::addr(&__small)"
    other = f"crate::corpus::other_{ab.lower()}()"
    args = args.replace("{OTHER}", other)
    fps = [f.replace("{OTHER}", other) for f in fps]
    tc = tc.replace("{args}", args).replace("{AB}", "Mock" if mock else ab).replace(", )", ")")
    dc = dc.replace("{args}", args).replace("{AB}", ab).replace("{ab}", ab.lower()).replace(", )", ")")
    aw = ".await" if fn.is_async else ""
    if mock and fn.deps[0] == "byval_any":
        # by value: the un-mocked function must receive the mock object ITSELF
        tc = f"app.clone().{fn.name}({args})".replace(", )", ")")
        recv = "sim::name_fp(std::any::type_name::<::unimock::Unimock>()) as usize"
    if mock:
        dc = tc  # the un-mock twin is chosen by the executor, not here
    body = f"        // @C{fn.cid}\n        #[cfg(not(skip_c{fn.cid}))]\n        {fn.method_id} => {{\n"
    for p in pre:
        body += f"            {p}\n"
    if mock and fn in UNMOCK_NEG:
        # must be refused: flavor 2 tells the oracle that no function may be entered
        call = f"app.{fn.name}({args})".replace(", )", ")")
        if fn.unsafe_:
            call = f"unsafe {{ {call} }}"
        body += f"            let __t = sim::call_start_flavor({fn.method_id}, 0, &[{', '.join(fps)}], if flavor == 1 {{ 1 }} else {{ 2 }});\n"
        if fn.is_async:
            body += f"            if flavor == 1 {{\n                drop({call});\n                sim::call_end(__t, 0);\n                return 0;\n            }}\n"
            body += f"            let __fp = match sim::Refusal::new({call}).await {{ Ok(__r) => {ret_fp(fn)}, Err(()) => 0 }};\n"
        else:
            body += f"            let __fp = match sim::refusal(|| {call}) {{ Ok(__r) => {ret_fp(fn)}, Err(()) => 0 }};\n"
        body += f"            sim::call_end(__t, __fp);\n            __fp\n        }}\n        // @C0\n"
        return body
    # desugared providers do their first part when CALLED; when Impl<T> forwards (at the call or at
    # the first poll) is not something C06 states, so these methods are always awaited
    lazy_ok = not getattr(fn, "desugared_provider", False)
    body += f"            let __t = sim::call_start_flavor({fn.method_id}, {recv}, &[{', '.join(fps)}], {'flavor' if lazy_ok else '0'});\n"
    if fn.unsafe_:
        dc, tc = f"unsafe {{ {dc} }}", f"unsafe {{ {tc} }}"
    if fn.is_async and lazy_ok:
        body += f"            if flavor == 1 {{\n                if direct {{ drop({dc}); }} else {{ drop({tc}); }}\n                sim::call_end(__t, 0);\n                return 0;\n            }}\n"
    body += f"            let __fp = if direct {{ let __r = {dc}{aw}; {ret_fp(fn)} }} else {{ let __r = {tc}{aw}; {ret_fp(fn)} }};\n"
    # writes through `&mut` arguments must have reached the caller's variables
    _k = 0
    for _p in fn.params:
        if _p.kind == "mutw" and _p.pat != "wild":
            body += f"            let __fp = if mw{_k} == v[{_k}] ^ 0x5a5a {{ __fp }} else {{ !__fp }};\n"
        _k += _p.call(_k)[3]
    body += f"            sim::call_end(__t, __fp);\n            __fp\n        }}\n        // @C0\n"
    return body


disp = """// @generated by gen_corpus.py — do not edit by hand.
#![allow(clippy::all, unused_variables, unused_mut, dead_code, unused_imports, unreachable_code, unexpected_cfgs, unused_unsafe)]
use crate::corpus::*;
use crate::sim::{self, Tracked};
use entrait::Impl;

#[derive(Clone, Copy, Debug)]
pub struct MethodModel {
    pub id: u16,
    pub name: &'static str,
    pub section: &'static str,
    pub is_async: bool,
    /// dynamic dispatch was requested (delegate_by=ref/Borrow, #[entrait(ref)], async_trait):
    /// the zero-allocation claim (C14) is not asserted
    pub dynamic: bool,
    /// the original function reached, per application (A, B)
    pub fn_id: [u16; 2],
    /// argument fingerprints visible to the original function, in declared order
    pub nfp: u8,
    /// values consumed from the argument vector
    pub nvals: u8,
    pub lookups: u8,
    pub lookup_kind: u16,
    pub ret_unit: bool,
    /// nested calls the original function makes through its dependency (method ids)
    pub callees: &'static [u16],
    pub props: &'static [&'static str],
    pub unmockable: bool,
    /// not un-mockable (concrete dependency / entraited trait): on a partial mock with no
    /// matching clause the call must be refused and no function may run
    pub refuses: bool,
    /// false when the method's corpus container is compiled out (`--cfg skip_c<N>`,
    /// see run.sh: compile-error-driven slicing)
    pub available: bool,
    pub container: u16,
}

pub const MODEL: &[MethodModel] = &[
"""
for fn in METHODS:
    _, _, fps, used = build_args(fn)
    fn_ids = getattr(fn, "fn_ids", (fn.fn_id, fn.fn_id))
    callees = [ALL_FNS[c].method_id for c in fn.calls]
    disp += (f"    MethodModel {{ id: {fn.method_id}, name: \"{fn.name}\", section: \"{fn.section}\", is_async: {str(fn.is_async).lower()}, "
             f"dynamic: {str(fn.dynamic).lower()}, fn_id: [{fn_ids[0]}, {fn_ids[1]}], nfp: {len(fps)}, nvals: {used}, "
             f"lookups: {getattr(fn, 'lookups', 0)}, lookup_kind: {getattr(fn, 'lookup_kind', 0)}, ret_unit: {str(fn.ret in ('unit', 'explicit_unit', 'resunit', 'implfut_drop')).lower()}, "
             f"callees: &{callees}, props: &{list(fn.props)!r}, unmockable: {str(fn in UNMOCK).lower()}, refuses: {str(fn in UNMOCK_NEG).lower()}, "
             f"available: cfg!(not(skip_c{fn.cid})), container: {fn.cid} }},\n").replace("'", '"')
disp += "];\n\n"



def dispatch_fn(name, handle_ty, ab, is_async, methods, mock=False, cfg=""):
    asy = "async " if is_async else ""
    out = f"{cfg}pub {asy}fn {name}(app: &{handle_ty}, m: u16, v: &[u64; 16], direct: bool, flavor: u8) -> u64 {{\n    match m {{\n"
    for fn in methods:
        if fn.is_async == is_async:
            out += arm(fn, ab, is_async, mock)
    out += "        _ => unreachable!(\"no such method\"),\n    }\n}\n\n"
    return out


for ab, k in (("A", 0), ("B", 1)):
    disp += dispatch_fn(f"call_sync_{ab.lower()}", f"Impl<App<{k}>>", ab, False, METHODS)
    disp += dispatch_fn(f"call_async_{ab.lower()}", f"Impl<App<{k}>>", ab, True, METHODS)
cfg = "#[cfg(feature = \"unimock\")]\n"
disp += dispatch_fn("call_sync_mock", "::unimock::Unimock", "A", False, UNMOCK + UNMOCK_NEG, mock=True, cfg=cfg)
disp += dispatch_fn("call_async_mock", "::unimock::Unimock", "A", True, UNMOCK + UNMOCK_NEG, mock=True, cfg=cfg)
disp += "pub fn assert_bundles() {}\n"

with open(os.path.join(OUT, "dispatch.rs"), "w") as f:
    f.write(disp)


def linemap(path, fname, out):
    cur = 0
    start = 1
    for ln, line in enumerate(open(path), 1):
        t = line.strip()
        if t.startswith("// @C"):
            if cur:
                out.append(f"{fname}\t{start}\t{ln}\t{cur}")
            cur = int(t[5:])
            start = ln
    return out


lm = []
linemap(os.path.join(OUT, "corpus.rs"), "src/corpus.rs", lm)
linemap(os.path.join(OUT, "dispatch.rs"), "src/dispatch.rs", lm)
with open(os.path.join(OUT, "linemap.tsv"), "w") as f:
    f.write("\n".join(lm) + "\n")
print(f"{len(METHODS)} methods, {FN_COUNTER[0]} original functions, {len(UNMOCK)} un-mockable, {CID[0]} containers")
