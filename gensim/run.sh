#!/usr/bin/env bash
# gensim/run.sh <C01|C06|C07|C11|C14|setup> [quick|thorough] [replay-file]
set -u
VERIF="$(cd "$(dirname "${BASH_SOURCE[0]}")/.." && pwd)"
cd "$VERIF/gensim" || exit 2
export CARGO_NET_OFFLINE=true
unset RUSTFLAGS CARGO_ENCODED_RUSTFLAGS CARGO_BUILD_RUSTFLAGS RUSTC_WRAPPER CARGO_TARGET_DIR 2>/dev/null
ID="${1:-}"; TIER="${2:-quick}"; REPLAY="${3:-}"
BIN="$VERIF/target/gensim/bin"
mkdir -p "$BIN" "$VERIF/evidence" "$VERIF/replays"
[ -f Cargo.lock ] || cp /repo/Cargo.lock Cargo.lock

FALLBACK=0
build() { # $1 = default|unimock
  local feat="hetero"; [ "$1" = unimock ] && feat="hetero,unimock"
  if ! cargo build --release --offline --features "$feat" 2>"$VERIF/target/gensim-build-$1.log"; then
    # the heterogeneous-signature slice turns many mis-forwardings into compile
    # errors; fall back to the homogeneous slice so that the simulation can
    # still decide the rest at run time
    grep -E "^error" -A 12 "$VERIF/target/gensim-build-$1.log" | head -40 >&2
    echo "gensim: full corpus ($1 build) does not build against the current /repo working tree; retrying without the heterogeneous-signature slice" >&2
    feat=""; [ "$1" = unimock ] && feat="unimock"
    if ! cargo build --release --offline --features "$feat" 2>"$VERIF/target/gensim-build-$1.log"; then
      grep -E "^error" -A 12 "$VERIF/target/gensim-build-$1.log" | head -60 >&2
      echo "HARNESS-ERROR: the gensim corpus ($1 build) does not build against the current /repo working tree; this is a compile-time verdict and not a simulation result" >&2
      return 2
    fi
    FALLBACK=1
  fi
  cp -f "$VERIF/target/gensim/release/gensim" "$BIN/gensim-$1" || return 2
}

run_part() { # $1 = build, $2 = part
  local limit=50; [ "$TIER" = thorough ] && limit=900
  timeout -k 5 $limit "$BIN/gensim-$1" check "$ID" --tier "$TIER" --verif "$VERIF" --part "$2"
  local code=$?
  if [ $code -ge 124 ]; then
    # killed by a signal (stack overflow, abort) or hung (the executor and the corpus bodies are
    # bounded, so only generated code can loop): locate and minimise the run in child processes
    timeout -k 5 900 "$BIN/gensim-$1" crash-triage "$ID" --tier "$TIER" --verif "$VERIF" --part "$2"
    code=$?
    if [ $code -ge 124 ]; then echo "HARNESS-ERROR: crash triage timed out or died (exit $code)" >&2; return 2; fi
    return $code
  fi
  if [ $code -eq 0 ] && [ $FALLBACK -eq 1 ]; then
    echo "HARNESS-ERROR: part of the corpus does not compile against the current /repo working tree and the rest showed no violation: no verdict" >&2
    return 2
  fi
  return $code
}

case "$ID" in
  setup)
    # the fallback slices must build too (they are what catches mis-forwardings that
    # turn the heterogeneous slice into compile errors)
    cargo build --release --offline 2>"$VERIF/target/gensim-build-fallback.log" || { tail -20 "$VERIF/target/gensim-build-fallback.log" >&2; echo "HARNESS-ERROR: fallback slice does not build" >&2; exit 2; }
    cargo build --release --offline --features unimock 2>"$VERIF/target/gensim-build-fallback.log" || { tail -20 "$VERIF/target/gensim-build-fallback.log" >&2; echo "HARNESS-ERROR: fallback slice (unimock) does not build" >&2; exit 2; }
    build default || exit 2
    build unimock || exit 2
    exit 0;;
  C11)
    build unimock || exit 2
    if [ -n "$REPLAY" ]; then exec "$BIN/gensim-unimock" replay "$REPLAY"; fi
    run_part unimock first; exit $?;;
  C01|C06|C07|C14)
    if [ -n "$REPLAY" ]; then
      if grep -q '"build": "unimock"' "$REPLAY"; then build unimock || exit 2; exec "$BIN/gensim-unimock" replay "$REPLAY"
      else build default || exit 2; exec "$BIN/gensim-default" replay "$REPLAY"; fi
    fi
    build default || exit 2
    run_part default first; code=$?
    [ $code -ne 0 ] && exit $code
    build unimock || exit 2
    run_part unimock second; exit $?;;
  *) echo "usage: run.sh <C01|C06|C07|C11|C14|setup> [tier] [replay]" >&2; exit 2;;
esac
