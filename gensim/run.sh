#!/usr/bin/env bash
# gensim/run.sh <C01|C06|C07|C11|C14|setup> [quick|thorough] [replay-file]
set -u
VERIF="$(cd "$(dirname "${BASH_SOURCE[0]}")/.." && pwd)"
cd "$VERIF/gensim" || exit 2
export CARGO_NET_OFFLINE=true
unset RUSTFLAGS CARGO_ENCODED_RUSTFLAGS CARGO_BUILD_RUSTFLAGS RUSTC_WRAPPER CARGO_TARGET_DIR 2>/dev/null
ID="${1:-}"; TIER="${2:-quick}"; REPLAY="${3:-}"
BIN="$VERIF/target/gensim/bin"
mkdir -p "$BIN" "$VERIF/evidence" "$VERIF/replays"
[ -f Cargo.lock ] || cp /repo/Cargo.lock Cargo.lock

FALLBACK=0
# Compile-error-driven slicing: every corpus container (one entraited fn / module / trait family /
# inversion family) can be compiled out with `--cfg skip_c<N>`. If the corpus does not build against
# the current /repo, the containers the compiler errors point into are dropped and the build is
# retried, so that a change which turns SOME shapes into compile errors still gets a run-time verdict
# from the rest. A clean run on a sliced corpus is "no verdict" (exit 2), never "held".
build() { # $1 = default|unimock
  local feat=""; [ "$1" = unimock ] && feat="--features unimock"
  local skips="" round new log="$VERIF/target/gensim-build-$1.log"
  for round in 1 2 3 4 5 6 7 8 9 10 11 12 13 14 15 16; do
    # -A warnings: the container mapping below must see the locations of ERRORS only (a warning such
    # as `unconditional_recursion` points at exactly the functions a change mis-generates; dropping
    # those would hide the violation)
    if cargo rustc --release --offline --bin gensim $feat -- -A warnings $skips 2>"$log"; then
      cp -f "$VERIF/target/gensim/release/gensim" "$BIN/gensim-$1" || return 2
      if [ -n "$skips" ]; then
        FALLBACK=1
        echo "gensim: the full corpus ($1 build) does not compile against the current /repo working tree; compiled out containers:$(echo "$skips" | sed 's/--cfg skip_c/ /g')" >&2
      fi
      return 0
    fi
    new=$(grep -oE 'src/(corpus|dispatch)\.rs:[0-9]+' "$log" | sort -u | awk -F: 'NR==FNR { split($0, r, "\t"); f[NR]=r[1]; a[NR]=r[2]; b[NR]=r[3]; c[NR]=r[4]; n=NR; next } { for (i=1;i<=n;i++) if (f[i]==$1 && $2+0>=a[i]+0 && $2+0<=b[i]+0) print c[i] }' "$VERIF/gensim/src/linemap.tsv" - | sort -un)
    local added=""
    for c in $new; do
      case " $skips " in *" skip_c$c "*) ;; *) skips="$skips --cfg skip_c$c"; added="$added $c";; esac
    done
    if [ -z "$added" ]; then
      grep -E "^error" -A 8 "$log" | head -40 >&2
      echo "HARNESS-ERROR: the gensim corpus ($1 build) does not build against the current /repo working tree and the compiler errors do not point into a droppable corpus container; this is a compile-time verdict and not a simulation result" >&2
      return 2
    fi
    [ $round = 1 ] && { grep -E "^error" -A 6 "$log" | head -24 >&2; }
  done
  echo "HARNESS-ERROR: the gensim corpus ($1 build) still does not build after dropping containers:$skips" >&2
  return 2
}

run_part() { # $1 = build, $2 = part
  local limit=75; [ "$TIER" = thorough ] && limit=900   # search is wall-capped at 12 s / 240 s; the slack absorbs machine stalls
  timeout -k 5 $limit "$BIN/gensim-$1" check "$ID" --tier "$TIER" --verif "$VERIF" --part "$2"
  local code=$?
  if [ $code -ge 124 ]; then
    # killed by a signal (stack overflow, abort) or hung (the executor and the corpus bodies are
    # bounded, so only generated code can loop): locate and minimise the run in child processes
    timeout -k 5 900 "$BIN/gensim-$1" crash-triage "$ID" --tier "$TIER" --verif "$VERIF" --part "$2"
    code=$?
    if [ $code -ge 124 ]; then echo "HARNESS-ERROR: crash triage timed out or died (exit $code)" >&2; return 2; fi
    return $code
  fi
  if [ $code -eq 0 ] && [ $FALLBACK -eq 1 ]; then
    echo "HARNESS-ERROR: part of the corpus does not compile against the current /repo working tree and the rest showed no violation: no verdict" >&2
    return 2
  fi
  return $code
}

case "$ID" in
  setup)
    build default || exit 2
    build unimock || exit 2
    if [ $FALLBACK -eq 1 ]; then echo "HARNESS-ERROR: setup: the full corpus must build on the tree setup runs against" >&2; exit 2; fi
    exit 0;;
  C11)
    build unimock || exit 2
    if [ -n "$REPLAY" ]; then exec "$BIN/gensim-unimock" replay "$REPLAY"; fi
    run_part unimock first; exit $?;;
  C01|C06|C07|C14)
    if [ -n "$REPLAY" ]; then
      if grep -q '"build": "unimock"' "$REPLAY"; then build unimock || exit 2; exec "$BIN/gensim-unimock" replay "$REPLAY"
      else build default || exit 2; exec "$BIN/gensim-default" replay "$REPLAY"; fi
    fi
    build default || exit 2
    run_part default first; code=$?
    [ $code -ne 0 ] && exit $code
    build unimock || exit 2
    run_part unimock second; exit $?;;
  *) echo "usage: run.sh <C01|C06|C07|C11|C14|setup> [tier] [replay]" >&2; exit 2;;
esac
