//! User-side attribute macros for the gensim corpus (dependency-free): what an application might
//! put BELOW `#[entrait]` on a function. They apply to the function they are written on, once.

use proc_macro::{Delimiter, Group, TokenStream, TokenTree};

/// Prepends a *declared* heap allocation to the function body.
#[proc_macro_attribute]
pub fn heap_scratch(_attr: TokenStream, item: TokenStream) -> TokenStream {
    let mut toks: Vec<TokenTree> = item.into_iter().collect();
    if let Some(TokenTree::Group(g)) = toks.last().cloned() {
        if g.delimiter() == Delimiter::Brace {
            let mut body: TokenStream =
                "let __scratch = crate::sim::declared(|| ::std::boxed::Box::new(0u64)); ::std::hint::black_box(&__scratch);"
                    .parse()
                    .unwrap();
            body.extend(g.stream());
            let mut ng = Group::new(Delimiter::Brace, body);
            ng.set_span(g.span());
            *toks.last_mut().unwrap() = TokenTree::Group(ng);
        }
    }
    toks.into_iter().collect()
}
