//! Evidence file writer (schema: /root/.vp/EVIDENCE.schema.json) and the
//! known-findings file reader.

use serde_json::{json, Value};
use std::path::Path;

pub struct Evidence {
    pub property_id: String,
    pub tier: String,
    pub seed: u64,
    pub level: String,
    pub coverage: Value,
    pub assumptions: Vec<String>,
    pub wall_s: f64,
    pub violations: u64,
}

impl Evidence {
    pub fn write(&self, path: &Path) -> std::io::Result<()> {
        let v = json!({
            "property_id": self.property_id,
            "tier": self.tier,
            // the schema wants an integer; seeds are reported as i64
            "seed": self.seed as i64,
            "level": self.level,
            "coverage": self.coverage,
            "assumptions": self.assumptions,
            "wall_s": (self.wall_s * 1000.0).round() / 1000.0,
            "violations": self.violations,
        });
        if let Some(parent) = path.parent() {
            std::fs::create_dir_all(parent)?;
        }
        let tmp = path.with_extension("json.tmp");
        std::fs::write(&tmp, serde_json::to_string_pretty(&v).unwrap() + "\n")?;
        std::fs::rename(&tmp, path)
    }
}

/// One entry of /verif/known_findings.json.
#[derive(Clone, Debug)]
pub struct KnownFinding {
    pub status: String, // "open" | "fixed"
    pub property_id: String,
    pub signature: String,
    pub what: String,
}

pub fn load_known_findings(path: &Path) -> Vec<KnownFinding> {
    let Ok(text) = std::fs::read_to_string(path) else {
        return vec![];
    };
    let Ok(v) = serde_json::from_str::<Value>(&text) else {
        return vec![];
    };
    let mut out = vec![];
    if let Some(arr) = v.get("findings").and_then(|f| f.as_array()) {
        for f in arr {
            out.push(KnownFinding {
                status: f["status"].as_str().unwrap_or("open").to_string(),
                property_id: f["property_id"].as_str().unwrap_or("").to_string(),
                signature: f["signature"].as_str().unwrap_or("").to_string(),
                what: f["what"].as_str().unwrap_or("").to_string(),
            });
        }
    }
    out
}
