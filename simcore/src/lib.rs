//! Shared pieces of the two simulators: PRNG, hashing, real-time reads that
//! bypass the libc seams, delta debugging, evidence writer.

pub mod ddmin;
pub mod evidence;

/// xoshiro256** seeded through splitmix64. Own implementation so that the
/// stream for a given seed can never change under us.
#[derive(Clone, Debug)]
pub struct Rng {
    s: [u64; 4],
}

pub fn splitmix64(state: &mut u64) -> u64 {
    *state = state.wrapping_add(0x9E37_79B9_7F4A_7C15);
    let mut z = *state;
    z = (z ^ (z >> 30)).wrapping_mul(0xBF58_476D_1CE4_E5B9);
    z = (z ^ (z >> 27)).wrapping_mul(0x94D0_49BB_1331_11EB);
    z ^ (z >> 31)
}

impl Rng {
    pub fn new(seed: u64) -> Self {
        let mut sm = seed;
        let s = [
            splitmix64(&mut sm),
            splitmix64(&mut sm),
            splitmix64(&mut sm),
            splitmix64(&mut sm),
        ];
        Rng { s }
    }

    /// Independent stream for (seed, index): used to give every run its own
    /// PRNG so that runs are independent of how many workers execute them.
    pub fn for_run(seed: u64, index: u64) -> Self {
        let mut sm = seed ^ index.wrapping_mul(0xD6E8_FEB8_6659_FD93);
        let a = splitmix64(&mut sm);
        Rng::new(a ^ index.rotate_left(17))
    }

    pub fn next_u64(&mut self) -> u64 {
        let result = self.s[1].wrapping_mul(5).rotate_left(7).wrapping_mul(9);
        let t = self.s[1] << 17;
        self.s[2] ^= self.s[0];
        self.s[3] ^= self.s[1];
        self.s[1] ^= self.s[2];
        self.s[0] ^= self.s[3];
        self.s[2] ^= t;
        self.s[3] = self.s[3].rotate_left(45);
        result
    }

    /// Uniform in 0..n (n > 0).
    pub fn below(&mut self, n: u64) -> u64 {
        debug_assert!(n > 0);
        // multiply-shift; bias is irrelevant here
        ((self.next_u64() as u128 * n as u128) >> 64) as u64
    }

    pub fn range(&mut self, lo: u64, hi_inclusive: u64) -> u64 {
        lo + self.below(hi_inclusive - lo + 1)
    }

    pub fn chance(&mut self, per_mille: u64) -> bool {
        self.below(1000) < per_mille
    }

    pub fn pick<'a, T>(&mut self, xs: &'a [T]) -> &'a T {
        &xs[self.below(xs.len() as u64) as usize]
    }

    pub fn shuffle<T>(&mut self, xs: &mut [T]) {
        for i in (1..xs.len()).rev() {
            let j = self.below(i as u64 + 1) as usize;
            xs.swap(i, j);
        }
    }
}

pub fn fnv1a64(bytes: &[u8]) -> u64 {
    let mut h: u64 = 0xcbf2_9ce4_8422_2325;
    for b in bytes {
        h ^= *b as u64;
        h = h.wrapping_mul(0x0000_0100_0000_01b3);
    }
    h
}

pub fn fnv_extend(mut h: u64, bytes: &[u8]) -> u64 {
    for b in bytes {
        h ^= *b as u64;
        h = h.wrapping_mul(0x0000_0100_0000_01b3);
    }
    h
}

/// Real monotonic time in seconds, read with a raw syscall so that it is not
/// affected by the `clock_gettime` seam a harness binary may define.
pub fn real_now_s() -> f64 {
    let mut ts = libc::timespec {
        tv_sec: 0,
        tv_nsec: 0,
    };
    unsafe {
        libc::syscall(
            libc::SYS_clock_gettime,
            libc::CLOCK_MONOTONIC,
            &mut ts as *mut libc::timespec,
        );
    }
    ts.tv_sec as f64 + ts.tv_nsec as f64 * 1e-9
}

pub fn env_seed() -> u64 {
    match std::env::var("VERIF_SEED") {
        Ok(s) => match s.trim().parse::<i64>() {
            Ok(v) => v as u64,
            Err(_) => fnv1a64(s.as_bytes()),
        },
        Err(_) => 0,
    }
}

pub fn hex64(v: u64) -> String {
    format!("{v:016x}")
}
