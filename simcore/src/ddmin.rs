//! Delta debugging (ddmin) over a list, plus a one-at-a-time simplification
//! pass. `fails(candidate)` must return true when the candidate still shows
//! the violation.

/// Minimise `items` while `fails` stays true. Returns the reduced list.
pub fn ddmin<T: Clone>(items: Vec<T>, fails: &mut dyn FnMut(&[T]) -> bool) -> Vec<T> {
    let mut cur = items;
    let mut n = 2usize;
    while cur.len() >= 2 {
        let chunk = (cur.len() + n - 1) / n;
        let mut reduced = false;
        // try complements
        let mut i = 0;
        while i * chunk < cur.len() {
            let lo = i * chunk;
            let hi = (lo + chunk).min(cur.len());
            let mut cand: Vec<T> = Vec::with_capacity(cur.len() - (hi - lo));
            cand.extend_from_slice(&cur[..lo]);
            cand.extend_from_slice(&cur[hi..]);
            if !cand.is_empty() && fails(&cand) {
                cur = cand;
                n = (n - 1).max(2);
                reduced = true;
                break;
            }
            i += 1;
        }
        if !reduced {
            if n >= cur.len() {
                break;
            }
            n = (n * 2).min(cur.len());
        }
    }
    // final one-at-a-time pass
    let mut i = 0;
    while i < cur.len() && cur.len() > 1 {
        let mut cand = cur.clone();
        cand.remove(i);
        if fails(&cand) {
            cur = cand;
        } else {
            i += 1;
        }
    }
    cur
}

/// Try to replace each element by a simpler one (given by `simpler`), keeping
/// the replacement when the failure persists.
pub fn simplify_each<T: Clone + PartialEq>(
    mut items: Vec<T>,
    simpler: &dyn Fn(&T) -> Vec<T>,
    fails: &mut dyn FnMut(&[T]) -> bool,
) -> Vec<T> {
    for i in 0..items.len() {
        for cand_elem in simpler(&items[i]) {
            if cand_elem == items[i] {
                continue;
            }
            let mut cand = items.clone();
            cand[i] = cand_elem;
            if fails(&cand) {
                items = cand;
                break;
            }
        }
    }
    items
}
