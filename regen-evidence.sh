#!/usr/bin/env bash
# Re-run every registered quick check on the CURRENT (must be unchanged) tree so that the
# committed evidence files come from clean runs. Refuses to run if /repo has local edits.
cd /verif
if [ -n "$(git -C /repo status --short)" ]; then echo "/repo has local edits; refusing" >&2; exit 2; fi
rc=0
for id in C01 C06 C07 C11 C14 C20; do
  ./check $id --tier quick > /tmp/regen-$id.log 2>&1; c=$?
  echo "$id exit $c: $(grep -E 'held|VIOLATION|HARNESS' /tmp/regen-$id.log | tail -1)"
  [ $c -ne 0 ] && rc=1
done
python3-vt - <<'PY'
import json,jsonschema
sch=json.load(open('/root/.vp/EVIDENCE.schema.json'))
for i in ['C01','C06','C07','C11','C14','C20']:
    e=json.load(open(f'/verif/evidence/{i}.json')); jsonschema.validate(e,sch)
    print(i,e['tier'],e['level'],e['coverage']['evaluations'],e['coverage']['distinct_nontrivial'],e['violations'],e['wall_s'])
jsonschema.validate(json.load(open('/verif/MANIFEST.json')),json.load(open('/root/.vp/MANIFEST.schema.json')))
print('manifest ok')
PY
exit $rc
